//! C16, last clause: the series are what `GET /metrics` on the metrics listener returns, and
//! `/health-check` answers 200 - through the real listener started by `Core::listen`.

use crate::engine::networld::NetWorld;
use crate::engine::world::{CoreSpec, Outcome, Scripted};
use crate::engine::{aio, viol, Suite, Tier, Verdict};
use crate::ensure;
use crate::props::c16::parse_prometheus;
use crate::props::tunnelreq::b64;
use proptest::prelude::*;
use serde::{Deserialize, Serialize};
use std::time::Duration;
use tokio::io::{AsyncReadExt, AsyncWriteExt};
use trusttunnel::verif::session::{ChannelView, Proto};

#[derive(Serialize, Deserialize, Debug, Clone)]
pub struct Case {
    /// HTTP/1.1 sessions with an established tunnel, HTTP/2 sessions, tunnels on the HTTP/2 session
    pub h1_tunnels: u8,
    pub h2_sessions: u8,
    pub h2_tunnels: u8,
    /// bytes echoed through every tunnel
    pub payload: u16,
    /// how the scrape request is written: 0 one write, 1 byte by byte, 2 with extra headers
    pub request_form: u8,
    /// HTTP/3 connections (quiche clients) held open during the scrape
    #[serde(default)]
    pub h3_sessions: u8,
    /// HTTP/3 connections with a CONNECT tunnel that echoes `payload` bytes (held open during the scrape)
    #[serde(default)]
    pub h3_tunnels: u8,
}

async fn http_get(addr: std::net::SocketAddr, path: &str, form: u8) -> Result<(u16, Vec<u8>), String> {
    let mut s = tokio::net::TcpStream::connect(addr).await.map_err(|e| format!("connect to the metrics listener: {}", e))?;
    let extra = if form == 2 { "User-Agent: prometheus/2.x\r\nAccept: text/plain;version=0.0.4\r\nAccept-Encoding: identity\r\n" } else { "" };
    let req = format!("GET {} HTTP/1.1\r\nHost: {}\r\n{}Connection: close\r\n\r\n", path, addr, extra);
    if form == 1 {
        for b in req.as_bytes() {
            s.write_all(&[*b]).await.map_err(|e| e.to_string())?;
        }
    } else {
        s.write_all(req.as_bytes()).await.map_err(|e| e.to_string())?;
    }
    let mut buf = vec![];
    let _ = tokio::time::timeout(Duration::from_secs(5), s.read_to_end(&mut buf)).await;
    let Some(p) = buf.windows(4).position(|w| w == b"\r\n\r\n") else {
        return Err(format!("no response head ({} bytes)", buf.len()));
    };
    let head = String::from_utf8_lossy(&buf[..p]).into_owned();
    let status: u16 = head.split_whitespace().nth(1).and_then(|x| x.parse().ok()).ok_or_else(|| format!("bad status line: {:?}", head.lines().next()))?;
    let mut body = buf[p + 4..].to_vec();
    if head.to_ascii_lowercase().contains("transfer-encoding: chunked") {
        body = crate::props::c17::dechunk(&body).ok_or("chunked body does not parse")?;
    }
    Ok((status, body))
}

pub struct EndpointSuite;

impl Suite for EndpointSuite {
    type Case = Case;
    fn name(&self) -> &'static str {
        "metrics-endpoint"
    }
    fn rule(&self) -> String {
        "the real Core::listen with a metrics listener on a loopback port; 0-2 HTTP/1.1 tunnels, 0-2 HTTP/2 sessions with 0-3 tunnels (in memory, echo destinations, a generated number of bytes through each), 0-1 idle HTTP/3 connections and 0-2 HTTP/3 connections with a CONNECT tunnel (echoing the same number of bytes) of quiche clients over the real QUIC listener; then GET /health-check and GET /metrics over TCP (request in one write, byte by byte, or with a scraper's headers); oracle: /health-check answers 200; /metrics answers 200 with a body that parses as Prometheus text and carries client_sessions per protocol = the live sessions, traffic bytes = the bytes echoed, series by series (every protocol's inbound and outbound series = its tunnels x the payload) (within 4 s; the destinations are in-memory peers, so outbound_tcp_sockets stays 0), and equals what the metrics door reports; an unknown path is not answered 200; after all clients have left client_sessions sums to 0 within 4 s; non-trivial = at least one live tunnel".into()
    }
    fn strategy(&self, _: Tier) -> BoxedStrategy<Case> {
        (0u8..3, 0u8..3, 0u8..4, 1u16..5000, 0u8..3, 0u8..6)
            .prop_map(|(h1_tunnels, h2_sessions, h2_tunnels, payload, request_form, h3_sessions)| Case { h1_tunnels, h2_sessions, h2_tunnels, payload, request_form, h3_sessions: h3_sessions % 2, h3_tunnels: (h3_sessions / 2).min(2) })
            .boxed()
    }
    fn cases(&self, tier: Tier) -> u64 {
        tier.pick(480, 12_000)
    }
    fn classify(&self, c: &Case) -> Vec<&'static str> {
        let mut v = vec![];
        if c.h1_tunnels > 0 || (c.h2_sessions > 0 && c.h2_tunnels > 0) {
            v.push("nontrivial");
        }
        if c.request_form == 1 {
            v.push("request-byte-by-byte");
        }
        v
    }
    fn required_classes(&self) -> Vec<&'static str> {
        vec!["nontrivial", "request-byte-by-byte"]
    }
    fn check(&self, c: &Case) -> Verdict {
        let c = c.clone();
        let debug_log = std::env::var("VERIF_DEBUG_LOG").is_ok();
        if debug_log {
            crate::engine::logcap::start();
        }
        let r = self.check_inner(&c);
        if debug_log {
            let logs = crate::engine::logcap::stop();
            if r.is_err() {
                for l in logs.iter().filter(|l| !l.contains("rustls")).rev().take(120).collect::<Vec<_>>().into_iter().rev() {
                    eprintln!("LOG {}", l);
                }
            }
        }
        r
    }
}

impl EndpointSuite {
    fn check_inner(&self, c: &Case) -> Verdict {
        let c = c.clone();
        aio::block_on_real(async move {
            let mport = match crate::engine::proc::free_port() {
                Ok(p) => p,
                Err(e) => return viol("harness:port", e.to_string()),
            };
            let maddr: std::net::SocketAddr = format!("127.0.0.1:{}", mport).parse().unwrap();
            let spec = CoreSpec { metrics: Some(maddr), quic: true, ..CoreSpec::default() };
            let net = match NetWorld::start(&spec).await {
                Ok(n) => n,
                Err(e) => return viol("harness:networld", e),
            };
            let scripted = Scripted::new(|_| Outcome::Echo);
            let _g = scripted.install(&net.world);
            let auth = format!("Basic {}", b64("user:pass"));
            let payload = vec![0x5au8; c.payload as usize];
            let mut keep_h1 = vec![];
            let mut keep_h2 = vec![];
            let mut tunnels = 0u64;
            for _ in 0..c.h1_tunnels {
                let (mut io, _srv) = net.world.serve(Proto::Http1, ChannelView::Tunnel, "main.x", None, crate::engine::world::peer_v4(), 64 * 1024);
                let head = format!("CONNECT d.example:443 HTTP/1.1\r\nHost: d.example:443\r\nProxy-Authorization: {}\r\n\r\n", auth);
                let _ = io.write_all(head.as_bytes()).await;
                let mut got = vec![];
                let mut b = [0u8; 1];
                while !got.ends_with(b"\r\n\r\n") {
                    match tokio::time::timeout(Duration::from_secs(5), io.read(&mut b)).await {
                        Ok(Ok(1)) => got.push(b[0]),
                        _ => return viol("harness:connect", "no response to CONNECT"),
                    }
                }
                let _ = io.write_all(&payload).await;
                let mut echo = vec![0u8; payload.len()];
                if tokio::time::timeout(Duration::from_secs(5), io.read_exact(&mut echo)).await.is_err() {
                    return viol("harness:echo", "no echo on an HTTP/1.1 tunnel");
                }
                tunnels += 1;
                keep_h1.push(io);
            }
            let mut h2_tunnels = 0u64;
            for _ in 0..c.h2_sessions {
                let (io, _srv) = net.world.serve(Proto::Http2, ChannelView::Tunnel, "main.x", None, crate::engine::world::peer_v4(), 256 * 1024);
                let Ok((send, conn)) = h2::client::handshake(io).await else { return viol("harness:h2", "handshake") };
                let conn = tokio::spawn(async move {
                    let _ = conn.await;
                });
                let mut streams = vec![];
                for _ in 0..c.h2_tunnels {
                    let req = http::Request::builder().method("CONNECT").uri("d.example:443").header("proxy-authorization", auth.as_str()).body(()).unwrap();
                    let Ok(mut sr) = send.clone().ready().await else { return viol("harness:h2", "ready") };
                    let Ok((fut, mut stream)) = sr.send_request(req, false) else { return viol("harness:h2", "send_request") };
                    let Ok(Ok(resp)) = tokio::time::timeout(Duration::from_secs(5), fut).await else { return viol("harness:h2", "no response") };
                    if resp.status() != 200 {
                        return viol("harness:connect", format!("h2 CONNECT answered {}", resp.status()));
                    }
                    let _ = stream.send_data(bytes::Bytes::from(payload.clone()), false);
                    let mut body = resp.into_body();
                    let mut n = 0;
                    while n < payload.len() {
                        match tokio::time::timeout(Duration::from_secs(5), body.data()).await {
                            Ok(Some(Ok(b))) => {
                                let _ = body.flow_control().release_capacity(b.len());
                                n += b.len();
                            }
                            _ => return viol("harness:echo", "no echo on an HTTP/2 tunnel"),
                        }
                    }
                    h2_tunnels += 1;
                    streams.push((stream, body));
                }
                keep_h2.push((send, conn, streams));
            }
            tunnels += h2_tunnels;
            // HTTP/3 connections held open by quiche clients
            let (ready_tx, mut ready_rx) = tokio::sync::mpsc::channel(8);
            let (go_tx, go_rx) = tokio::sync::watch::channel(None);
            let mut h3_tasks = vec![];
            for _ in 0..c.h3_sessions {
                let (addr, r, g) = (net.addr, ready_tx.clone(), go_rx.clone());
                h3_tasks.push(tokio::spawn(async move { crate::engine::quic::h3_hold(addr, "main.x", r, g, Duration::from_millis(1)).await }));
            }
            drop(ready_tx);
            for _ in 0..c.h3_sessions {
                if tokio::time::timeout(Duration::from_secs(6), ready_rx.recv()).await.is_err() {
                    return viol("harness:quic-client", "an HTTP/3 client did not get ready");
                }
            }
            // HTTP/3 connections with a tunnel each, echoing the payload
            let mut h3_tunnel_tasks = vec![];
            for _ in 0..c.h3_tunnels {
                let headers = vec![
                    (b":method".to_vec(), b"CONNECT".to_vec()),
                    (b":authority".to_vec(), b"d.example:443".to_vec()),
                    (b"proxy-authorization".to_vec(), auth.clone().into_bytes()),
                ];
                let script = crate::engine::quic::TunnelScript { up: if payload.is_empty() { vec![] } else { vec![payload.clone()] }, fin: false };
                let (stop_tx, stop_rx) = tokio::sync::oneshot::channel();
                let addr = net.addr;
                h3_tunnel_tasks.push((stop_tx, tokio::spawn(async move { crate::engine::quic::h3_tunnel(addr, "main.x", headers, script, stop_rx, Duration::from_secs(12)).await })));
            }
            let what = format!("{} HTTP/1.1 tunnels, {} HTTP/2 sessions with {} tunnels each, {} HTTP/3 connections with a tunnel, {} bytes echoed per tunnel, {} idle HTTP/3 connections", c.h1_tunnels, c.h2_sessions, c.h2_tunnels, c.h3_tunnels, c.payload, c.h3_sessions);
            // ---- the listener
            let (st, _) = match http_get(maddr, "/health-check", c.request_form).await {
                Ok(x) => x,
                Err(e) => return viol("metrics-endpoint:health-check", format!("{}: GET /health-check: {}", what, e)),
            };
            ensure!(st == 200, "metrics-endpoint:health-check", "{}: GET /health-check answered {}", what, st);
            if let Ok((st, _)) = http_get(maddr, "/nothing-here", 0).await {
                ensure!(st != 200, "metrics-endpoint:unknown-path-served", "{}: GET /nothing-here answered 200", what);
            }
            let deadline = std::time::Instant::now() + Duration::from_secs(4);
            loop {
                let (st, body) = match http_get(maddr, "/metrics", c.request_form).await {
                    Ok(x) => x,
                    Err(e) => return viol("metrics-endpoint:metrics", format!("{}: GET /metrics: {}", what, e)),
                };
                ensure!(st == 200, "metrics-endpoint:metrics", "{}: GET /metrics answered {}", what, st);
                let text = String::from_utf8_lossy(&body).into_owned();
                let s = parse_prometheus(&text);
                let g = |name: &str, label: &str| -> f64 {
                    s.get(name).map(|m| m.iter().filter(|(k, _)| label.is_empty() || k.contains(label)).map(|(_, v)| *v).sum()).unwrap_or(0.0)
                };
                let sessions_h1 = g("client_sessions", "\"http1\"");
                let sessions_h2 = g("client_sessions", "\"http2\"");
                let sessions_h3 = g("client_sessions", "\"http3\"");
                let tcp = g("outbound_tcp_sockets", "");
                let traffic = g("inbound_traffic_bytes", "") + g("outbound_traffic_bytes", "");
                let want_traffic = 2.0 * (tunnels + c.h3_tunnels as u64) as f64 * c.payload as f64;
                // every series by itself: the payload is echoed, so both directions of a protocol carry
                // tunnels x payload bytes, whichever direction a series is meant to count
                let per_series = [("http1", c.h1_tunnels as u64), ("http2", h2_tunnels), ("http3", c.h3_tunnels as u64)].iter().all(|(p, n)| {
                    let want = (*n * c.payload as u64) as f64;
                    g("inbound_traffic_bytes", &format!("\"{}\"", p)) == want && g("outbound_traffic_bytes", &format!("\"{}\"", p)) == want
                });
                // (the destinations are in-memory peers of the scripted forwarder: no outbound socket exists)
                let ok = sessions_h1 == c.h1_tunnels as f64 && sessions_h2 == c.h2_sessions as f64 && sessions_h3 == (c.h3_sessions + c.h3_tunnels) as f64 && tcp == 0.0 && traffic == want_traffic && per_series;
                if ok {
                    // and it is the same text the door reports (modulo values still moving)
                    let door = parse_prometheus(&net.world.core.verif_metrics_text());
                    ensure!(
                        door.keys().collect::<Vec<_>>() == s.keys().collect::<Vec<_>>(),
                        "metrics-endpoint:differs-from-collect",
                        "{}: series over HTTP {:?}, series of Metrics::collect {:?}",
                        what,
                        s.keys().collect::<Vec<_>>(),
                        door.keys().collect::<Vec<_>>()
                    );
                    break;
                }
                if std::time::Instant::now() > deadline {
                    return viol(
                        "metrics-endpoint:values",
                        format!(
                            "{}: GET /metrics reports client_sessions http1={} http2={} http3={}, outbound_tcp_sockets={}, traffic bytes={} (want {} / {} / {} / 0 / {}); traffic series: {:?} (want {} bytes per tunnel in either direction of its protocol)",
                            what, sessions_h1, sessions_h2, sessions_h3, tcp, traffic, c.h1_tunnels, c.h2_sessions, c.h3_sessions + c.h3_tunnels, want_traffic,
                            s.iter().filter(|(k, _)| k.contains("traffic_bytes")).collect::<Vec<_>>(), c.payload
                        ),
                    );
                }
                tokio::time::sleep(Duration::from_millis(20)).await;
            }
            drop(keep_h1);
            drop(keep_h2);
            for (stop, task) in h3_tunnel_tasks {
                let _ = stop.send(());
                if let Ok(seen) = task.await {
                    ensure!(seen.status == Some(200) && seen.down == payload, "harness:echo", "no echo on an HTTP/3 tunnel (status {:?}, {} of {} bytes, {:?})", seen.status, seen.down.len(), payload.len(), seen.error);
                }
            }
            // everybody leaves: the session gauges return to zero
            let _ = go_tx.send(Some(tokio::time::Instant::now()));
            for t in h3_tasks {
                let _ = t.await;
            }
            let zero_wait = std::env::var("VERIF_ZERO_WAIT").ok().and_then(|x| x.parse().ok()).unwrap_or(4u64);
            let left_at = std::time::Instant::now();
            let deadline = left_at + Duration::from_secs(zero_wait);
            loop {
                let s = parse_prometheus(&net.world.core.verif_metrics_text());
                let total: f64 = s.get("client_sessions").map(|m| m.values().sum()).unwrap_or(0.0);
                if total == 0.0 {
                    if std::env::var("VERIF_DEBUG").is_ok() {
                        eprintln!("back to zero after {:?}", left_at.elapsed());
                    }
                    break;
                }
                if std::time::Instant::now() > deadline {
                    return viol("metrics-endpoint:sessions-not-back-to-zero", format!("{}: all clients are gone, client_sessions still sums to {}: {:?}", what, total, s.get("client_sessions")));
                }
                tokio::time::sleep(Duration::from_millis(20)).await;
            }
            Ok(())
        })
    }
}
