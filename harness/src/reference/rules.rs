//! Reference semantics of the connection filtering rules, written from CONFIGURATION.md
//! ("Rules Reference") and the wording of property C04. Three-valued: `None` = the documents do
//! not pin the outcome down.

use std::net::IpAddr;

#[derive(Debug, Clone)]
pub struct Rule {
    pub cidr: Option<String>,
    pub pattern: Option<String>,
    pub allow: bool,
}

#[derive(Debug, Clone, Copy, PartialEq, Eq)]
pub enum Verdict {
    Allow,
    Deny,
}

/// Some(true/false) = the CIDR does / does not contain the address; None = unspecified
fn cidr_contains(cidr: &str, ip: &IpAddr, canonicalise: bool) -> Option<bool> {
    let Some((addr, len)) = cidr.split_once('/') else {
        return Some(false); // not CIDR notation: never matches
    };
    let Ok(len) = len.parse::<u8>() else {
        return Some(false);
    };
    let Ok(net) = addr.parse::<IpAddr>() else {
        return Some(false);
    };
    let ip = match ip {
        IpAddr::V6(v6) => match v6.to_ipv4_mapped() {
            Some(v4) if canonicalise => IpAddr::V4(v4),
            // an IPv4-mapped address against an IPv4 CIDR at the engine level: unspecified
            Some(_) if net.is_ipv4() => return None,
            _ => *ip,
        },
        _ => *ip,
    };
    match (net, ip) {
        (IpAddr::V4(n), IpAddr::V4(a)) => {
            if len > 32 {
                return Some(false);
            }
            let mask = if len == 0 { 0 } else { u32::MAX << (32 - len) };
            let n = u32::from(n);
            if n & !mask != 0 {
                return None; // host bits set: unspecified
            }
            Some(u32::from(a) & mask == n)
        }
        (IpAddr::V6(n), IpAddr::V6(a)) => {
            if len > 128 {
                return Some(false);
            }
            let mask = if len == 0 { 0 } else { u128::MAX << (128 - len) };
            let n = u128::from(n);
            if n & !mask != 0 {
                return None;
            }
            Some(u128::from(a) & mask == n)
        }
        _ => Some(false), // different families
    }
}

fn unhex(s: &str) -> Option<Vec<u8>> {
    if s.len() % 2 != 0 || !s.bytes().all(|b| b.is_ascii_hexdigit()) {
        return None;
    }
    (0..s.len())
        .step_by(2)
        .map(|i| u8::from_str_radix(&s[i..i + 2], 16).ok())
        .collect()
}

/// Some(b) = the pattern does / does not match; None = unspecified
fn pattern_matches(p: &str, random: &[u8]) -> Option<bool> {
    match p.split_once('/') {
        None => {
            let Some(prefix) = unhex(p) else {
                return Some(false); // malformed: never matches
            };
            if prefix.is_empty() {
                return None;
            }
            Some(random.starts_with(&prefix))
        }
        Some((a, b)) => {
            let (Some(prefix), Some(mask)) = (unhex(a), unhex(b)) else {
                return Some(false);
            };
            if prefix.len() != mask.len() || prefix.is_empty() || prefix.len() > random.len() {
                return None;
            }
            Some((0..prefix.len()).all(|i| random[i] & mask[i] == prefix[i] & mask[i]))
        }
    }
}

fn pattern_wellformed(p: &str) -> bool {
    match p.split_once('/') {
        None => unhex(p).is_some(),
        Some((a, b)) => unhex(a).is_some() && unhex(b).is_some(),
    }
}

/// `canonicalise`: treat ::ffff:a.b.c.d as a.b.c.d (the wiring level must, the engine may).
pub fn evaluate(rules: &[Rule], ip: &IpAddr, random: Option<&[u8]>, canonicalise: bool) -> Option<Verdict> {
    if random.is_none() && rules.iter().any(|r| r.pattern.is_some()) {
        // fail closed; if only malformed patterns exist the documents say nothing
        return if rules.iter().any(|r| r.pattern.as_deref().is_some_and(pattern_wellformed)) {
            Some(Verdict::Deny)
        } else {
            None
        };
    }
    for r in rules {
        let c = match &r.cidr {
            None => Some(true),
            Some(c) => cidr_contains(c, ip, canonicalise),
        };
        let p = match (&r.pattern, random) {
            (None, _) => Some(true),
            (Some(p), Some(rnd)) => pattern_matches(p, rnd),
            (Some(_), None) => Some(false),
        };
        match (c, p) {
            (Some(false), _) | (_, Some(false)) => continue,
            (Some(true), Some(true)) => {
                return Some(if r.allow { Verdict::Allow } else { Verdict::Deny })
            }
            _ => return None,
        }
    }
    Some(Verdict::Allow)
}
