//! Reference codec for the UDP multiplexer stream (PROTOCOL.md 6.3, 6.4, 11.1, 11.2).

use std::net::{IpAddr, Ipv4Addr, Ipv6Addr, SocketAddr};

pub const IN_HEADER: usize = 16 + 2 + 16 + 2 + 1; // without the length field
pub const OUT_HEADER: usize = 16 + 2 + 16 + 2;
/// Payloads up to this size must be accepted ...
pub const MUST_ACCEPT_PAYLOAD: usize = 64_000;
/// ... and payloads above this one cannot be sent as a UDP datagram and must be dropped.
pub const MAX_UDP_PAYLOAD: usize = 65_507;

/// 11.2: IPv4 iff the first 12 bytes are zero and the address is not ::1
pub fn decode_ip(b: &[u8]) -> IpAddr {
    assert_eq!(b.len(), 16);
    let mut a = [0u8; 16];
    a.copy_from_slice(b);
    let v6 = Ipv6Addr::from(a);
    if a[..12].iter().all(|x| *x == 0) && v6 != Ipv6Addr::LOCALHOST {
        IpAddr::V4(Ipv4Addr::new(a[12], a[13], a[14], a[15]))
    } else {
        IpAddr::V6(v6)
    }
}

pub fn encode_ip(ip: &IpAddr) -> [u8; 16] {
    match ip {
        IpAddr::V4(v4) => {
            let mut a = [0u8; 16];
            a[12..].copy_from_slice(&v4.octets());
            a
        }
        IpAddr::V6(v6) => v6.octets(),
    }
}

#[derive(Debug, Clone, PartialEq, Eq)]
pub struct Datagram {
    pub source: SocketAddr,
    pub destination: SocketAddr,
    pub app_name: String,
    pub payload: Vec<u8>,
}

#[derive(Debug, Clone, PartialEq, Eq)]
pub enum Outcome {
    /// must be delivered
    Deliver(Datagram),
    /// must be skipped in its entirety
    Drop,
    /// size in the implementation-defined zone: may be delivered or dropped
    Either(Datagram),
}

/// Decode a complete byte stream into record outcomes. A trailing incomplete record yields nothing.
/// Returns the outcomes and the offset just after the last complete record.
pub fn decode_stream(stream: &[u8]) -> (Vec<Outcome>, usize) {
    let mut out = vec![];
    let mut pos = 0usize;
    loop {
        if stream.len() - pos < 4 {
            return (out, pos);
        }
        let len = u32::from_be_bytes([stream[pos], stream[pos + 1], stream[pos + 2], stream[pos + 3]])
            as usize;
        let body_start = pos + 4;
        if stream.len() - body_start < len {
            return (out, pos);
        }
        let body = &stream[body_start..body_start + len];
        pos = body_start + len;
        out.push(decode_record(body));
    }
}

pub fn decode_record(body: &[u8]) -> Outcome {
    if body.len() < IN_HEADER {
        return Outcome::Drop;
    }
    let source = SocketAddr::new(decode_ip(&body[0..16]), u16::from_be_bytes([body[16], body[17]]));
    let destination =
        SocketAddr::new(decode_ip(&body[18..34]), u16::from_be_bytes([body[34], body[35]]));
    let name_len = body[36] as usize;
    if body.len() < IN_HEADER + name_len {
        return Outcome::Drop;
    }
    let name = &body[IN_HEADER..IN_HEADER + name_len];
    let payload = &body[IN_HEADER + name_len..];
    let Ok(name) = std::str::from_utf8(name) else {
        return Outcome::Drop;
    };
    let d = Datagram {
        source,
        destination,
        app_name: name.to_string(),
        payload: payload.to_vec(),
    };
    if payload.len() > MAX_UDP_PAYLOAD {
        Outcome::Drop
    } else if payload.len() > MUST_ACCEPT_PAYLOAD {
        Outcome::Either(d)
    } else {
        Outcome::Deliver(d)
    }
}

/// 6.3 encoder (client side), used by generators
pub fn encode_in(d: &Datagram) -> Vec<u8> {
    let mut v = vec![];
    let len = IN_HEADER + d.app_name.len() + d.payload.len();
    v.extend_from_slice(&(len as u32).to_be_bytes());
    v.extend_from_slice(&encode_ip(&d.source.ip()));
    v.extend_from_slice(&d.source.port().to_be_bytes());
    v.extend_from_slice(&encode_ip(&d.destination.ip()));
    v.extend_from_slice(&d.destination.port().to_be_bytes());
    v.push(d.app_name.len() as u8);
    v.extend_from_slice(d.app_name.as_bytes());
    v.extend_from_slice(&d.payload);
    v
}

/// 6.4 encoder (endpoint side): the bytes the endpoint must produce
pub fn encode_out(source: &SocketAddr, destination: &SocketAddr, payload: &[u8]) -> Vec<u8> {
    let mut v = vec![];
    let len = OUT_HEADER + payload.len();
    v.extend_from_slice(&(len as u32).to_be_bytes());
    v.extend_from_slice(&encode_ip(&source.ip()));
    v.extend_from_slice(&source.port().to_be_bytes());
    v.extend_from_slice(&encode_ip(&destination.ip()));
    v.extend_from_slice(&destination.port().to_be_bytes());
    v.extend_from_slice(payload);
    v
}

/// 6.4 decoder (client side): round trip check of the endpoint's encoder
pub fn decode_out(wire: &[u8]) -> Option<(SocketAddr, SocketAddr, Vec<u8>)> {
    if wire.len() < 4 + OUT_HEADER {
        return None;
    }
    let len = u32::from_be_bytes([wire[0], wire[1], wire[2], wire[3]]) as usize;
    if wire.len() != 4 + len {
        return None;
    }
    let b = &wire[4..];
    Some((
        SocketAddr::new(decode_ip(&b[0..16]), u16::from_be_bytes([b[16], b[17]])),
        SocketAddr::new(decode_ip(&b[18..34]), u16::from_be_bytes([b[34], b[35]])),
        b[36..].to_vec(),
    ))
}
