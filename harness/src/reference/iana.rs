//! Three-valued reference for "globally routable" written from the IANA IPv4 / IPv6
//! special-purpose address registries and the wording of property C03.
//! MustRefuse: loopback, private, link-local, unique-local, unspecified, shared (CGNAT),
//! reserved, documentation. MustAllow: plain global unicast. DontCare: everything the property
//! statement does not pin down (multicast, benchmarking, protocol assignments, 6to4, NAT64, ...).

use std::net::{IpAddr, Ipv4Addr, Ipv6Addr};

#[derive(Debug, Clone, Copy, PartialEq, Eq)]
pub enum Class {
    MustRefuse,
    MustAllow,
    DontCare,
}

const fn net4(a: u8, b: u8, c: u8, d: u8, len: u32) -> (u32, u32) {
    let base = ((a as u32) << 24) | ((b as u32) << 16) | ((c as u32) << 8) | d as u32;
    let mask = if len == 0 { 0 } else { u32::MAX << (32 - len) };
    (base & mask, mask)
}

/// (network, mask, name)
pub const V4_REFUSE: &[((u32, u32), &str)] = &[
    (net4(0, 0, 0, 0, 8), "this-network/unspecified 0/8"),
    (net4(10, 0, 0, 0, 8), "private 10/8"),
    (net4(100, 64, 0, 0, 10), "shared CGNAT 100.64/10"),
    (net4(127, 0, 0, 0, 8), "loopback 127/8"),
    (net4(169, 254, 0, 0, 16), "link-local 169.254/16"),
    (net4(172, 16, 0, 0, 12), "private 172.16/12"),
    (net4(192, 0, 2, 0, 24), "documentation 192.0.2/24"),
    (net4(192, 168, 0, 0, 16), "private 192.168/16"),
    (net4(198, 51, 100, 0, 24), "documentation 198.51.100/24"),
    (net4(203, 0, 113, 0, 24), "documentation 203.0.113/24"),
    (net4(240, 0, 0, 0, 4), "reserved 240/4 incl. broadcast"),
];

pub const V4_DONT_CARE: &[((u32, u32), &str)] = &[
    (net4(192, 0, 0, 0, 24), "IETF protocol assignments 192.0.0/24"),
    (net4(192, 88, 99, 0, 24), "6to4 relay anycast (deprecated)"),
    (net4(198, 18, 0, 0, 15), "benchmarking 198.18/15"),
    (net4(224, 0, 0, 0, 4), "multicast 224/4"),
];

pub fn classify_v4(ip: u32) -> Class {
    for ((n, m), _) in V4_REFUSE {
        if ip & m == *n {
            return Class::MustRefuse;
        }
    }
    for ((n, m), _) in V4_DONT_CARE {
        if ip & m == *n {
            return Class::DontCare;
        }
    }
    Class::MustAllow
}

fn in6(ip: u128, prefix: u128, len: u32) -> bool {
    let mask = if len == 0 { 0 } else { u128::MAX << (128 - len) };
    ip & mask == prefix & mask
}

const fn p6(a: u16, b: u16) -> u128 {
    ((a as u128) << 112) | ((b as u128) << 96)
}

pub fn classify_v6(ip: u128) -> Class {
    if ip == 0 || ip == 1 {
        return Class::MustRefuse; // unspecified, loopback
    }
    if in6(ip, 0xffff_u128 << 32, 96) {
        return classify_v4(ip as u32); // IPv4-mapped
    }
    if in6(ip, p6(0xfe80, 0), 10) || in6(ip, p6(0xfc00, 0), 7) || in6(ip, p6(0x2001, 0x0db8), 32) {
        return Class::MustRefuse; // link-local, unique-local, documentation
    }
    if in6(ip, p6(0x2000, 0), 3) {
        if in6(ip, p6(0x2001, 0), 23) || in6(ip, p6(0x2002, 0), 16) || in6(ip, p6(0x3fff, 0), 20) {
            return Class::DontCare; // protocol assignments (Teredo, ...), 6to4, new documentation block
        }
        return Class::MustAllow;
    }
    Class::DontCare
}

pub fn classify(ip: &IpAddr) -> Class {
    match ip {
        IpAddr::V4(a) => classify_v4(u32::from(*a)),
        IpAddr::V6(a) => classify_v6(u128::from(*a)),
    }
}

/// Block boundaries (first/last address of every listed block and their neighbours).
pub fn v4_boundaries() -> Vec<u32> {
    let mut v = vec![0u32, 1, u32::MAX, u32::MAX - 1];
    for ((n, m), _) in V4_REFUSE.iter().chain(V4_DONT_CARE.iter()) {
        let first = *n;
        let last = *n | !*m;
        for x in [
            first.wrapping_sub(1),
            first,
            first.wrapping_add(1),
            last.wrapping_sub(1),
            last,
            last.wrapping_add(1),
        ] {
            v.push(x);
        }
    }
    v.sort();
    v.dedup();
    v
}

pub fn is_loopback(ip: &IpAddr) -> bool {
    match ip {
        IpAddr::V4(a) => a.octets()[0] == 127,
        IpAddr::V6(a) => {
            *a == Ipv6Addr::LOCALHOST
                || a.to_ipv4_mapped().is_some_and(|m: Ipv4Addr| m.octets()[0] == 127)
        }
    }
}
