//! Reference for ICMP echo tunnelling: RFC 1071 checksum, RFC 792 / RFC 4443 message layouts,
//! PROTOCOL.md 7.3 request records and 7.4 reply records.

use super::udpmux::{decode_ip, encode_ip};
use std::net::IpAddr;

/// RFC 1071: one's-complement sum of 16-bit big-endian words (odd tail padded with zero),
/// end-around carry folded until none is left.
pub fn ones_sum(bytes: &[u8]) -> u16 {
    let mut sum: u64 = 0;
    let mut i = 0;
    while i + 1 < bytes.len() {
        sum += u16::from_be_bytes([bytes[i], bytes[i + 1]]) as u64;
        i += 2;
    }
    if i < bytes.len() {
        sum += (bytes[i] as u64) << 8;
    }
    while sum >> 16 != 0 {
        sum = (sum & 0xffff) + (sum >> 16);
    }
    sum as u16
}

pub fn checksum(bytes: &[u8]) -> u16 {
    !ones_sum(bytes)
}

/// A packet carrying its own checksum verifies iff the one's-complement sum is 0xffff.
pub fn verifies(packet: &[u8]) -> bool {
    ones_sum(packet) == 0xffff
}

/// true when the 32-bit sum of the words needs more than one fold (hi + lo overflows 16 bits)
pub fn needs_two_folds(bytes: &[u8]) -> bool {
    let mut sum: u32 = 0;
    let mut i = 0;
    while i + 1 < bytes.len() {
        sum += u16::from_be_bytes([bytes[i], bytes[i + 1]]) as u32;
        i += 2;
    }
    if i < bytes.len() {
        sum += (bytes[i] as u32) << 8;
    }
    (sum >> 16) + (sum & 0xffff) > 0xffff
}

pub fn echo(type_id: u8, code: u8, id: u16, seq: u16, data: &[u8]) -> Vec<u8> {
    let mut p = vec![type_id, code, 0, 0];
    p.extend_from_slice(&id.to_be_bytes());
    p.extend_from_slice(&seq.to_be_bytes());
    p.extend_from_slice(data);
    let c = checksum(&p);
    p[2..4].copy_from_slice(&c.to_be_bytes());
    p
}

/// Minimal IPv4 header (IHL = 5 + options/4) in front of `payload`.
pub fn ipv4_packet(proto: u8, options: &[u8], src: [u8; 4], dst: [u8; 4], payload: &[u8]) -> Vec<u8> {
    assert!(options.len() % 4 == 0 && options.len() <= 40);
    let ihl = 5 + options.len() / 4;
    let total = ihl * 4 + payload.len();
    let mut p = vec![0x40 | ihl as u8, 0];
    p.extend_from_slice(&(total as u16).to_be_bytes());
    p.extend_from_slice(&[0x12, 0x34, 0, 0, 64, proto, 0, 0]);
    p.extend_from_slice(&src);
    p.extend_from_slice(&dst);
    p.extend_from_slice(options);
    let c = checksum(&p[..ihl * 4]);
    p[10..12].copy_from_slice(&c.to_be_bytes());
    p.extend_from_slice(payload);
    p
}

pub fn ipv6_packet(next_header: u8, src: [u8; 16], dst: [u8; 16], payload: &[u8]) -> Vec<u8> {
    let mut p = vec![0x60, 0, 0, 0];
    p.extend_from_slice(&(payload.len() as u16).to_be_bytes());
    p.push(next_header);
    p.push(64);
    p.extend_from_slice(&src);
    p.extend_from_slice(&dst);
    p.extend_from_slice(payload);
    p
}

/// ICMP error message: type, code, checksum, 4 bytes "unused"/parameter, quoted datagram.
pub fn error(type_id: u8, code: u8, param: [u8; 4], quoted: &[u8]) -> Vec<u8> {
    let mut p = vec![type_id, code, 0, 0];
    p.extend_from_slice(&param);
    p.extend_from_slice(quoted);
    let c = checksum(&p);
    p[2..4].copy_from_slice(&c.to_be_bytes());
    p
}

#[derive(Debug, Clone, PartialEq, Eq)]
pub enum Expect {
    /// must be reported as a response to the echo request (id, seq) with this type and code
    Report { id: u16, seq: u16, type_id: u8, code: u8 },
    /// must not be reported (unrelated / malformed / not a response)
    Nothing,
    /// outside what the property pins down
    DontCare,
}

/// What a received ICMP (v4: IP header already stripped) message must lead to.
pub fn expect(v6: bool, p: &[u8]) -> Expect {
    if p.len() < 8 {
        return Expect::Nothing;
    }
    let (t, code) = (p[0], p[1]);
    let id = u16::from_be_bytes([p[4], p[5]]);
    let seq = u16::from_be_bytes([p[6], p[7]]);
    if !v6 {
        match t {
            0 => {
                if code == 0 {
                    Expect::Report { id, seq, type_id: 0, code: 0 }
                } else {
                    Expect::DontCare
                }
            }
            3 | 4 | 5 | 11 | 12 => {
                if (t == 3 && code > 5) || (t == 11 && code > 1) {
                    return Expect::DontCare; // codes the endpoint chooses not to understand
                }
                let q = &p[8..];
                if q.len() < 20 + 8 {
                    return Expect::Nothing;
                }
                if q[0] >> 4 != 4 {
                    return Expect::DontCare;
                }
                let ihl = (q[0] & 0x0f) as usize * 4;
                if ihl < 20 {
                    return Expect::Nothing;
                }
                if q.len() < ihl + 8 {
                    return Expect::Nothing;
                }
                if q[9] != 1 {
                    return Expect::Nothing;
                }
                let icmp = &q[ihl..];
                if icmp[0] != 8 {
                    return Expect::Nothing;
                }
                Expect::Report {
                    id: u16::from_be_bytes([icmp[4], icmp[5]]),
                    seq: u16::from_be_bytes([icmp[6], icmp[7]]),
                    type_id: t,
                    code,
                }
            }
            _ => Expect::Nothing,
        }
    } else {
        match t {
            129 => {
                if code == 0 {
                    Expect::Report { id, seq, type_id: 129, code: 0 }
                } else {
                    Expect::DontCare
                }
            }
            1 | 2 | 3 | 4 => {
                if (t == 1 && code > 6) || (t == 3 && code > 1) {
                    return Expect::DontCare;
                }
                let q = &p[8..];
                if q.len() < 40 + 8 {
                    return Expect::Nothing;
                }
                if q[0] >> 4 != 6 {
                    return Expect::DontCare;
                }
                match q[6] {
                    58 => {
                        let icmp = &q[40..];
                        if icmp[0] != 128 {
                            return Expect::Nothing;
                        }
                        Expect::Report {
                            id: u16::from_be_bytes([icmp[4], icmp[5]]),
                            seq: u16::from_be_bytes([icmp[6], icmp[7]]),
                            type_id: t,
                            code,
                        }
                    }
                    // quoted packet with extension headers: the endpoint never sends those
                    0 | 43 | 44 | 60 => Expect::DontCare,
                    _ => Expect::Nothing,
                }
            }
            _ => Expect::Nothing,
        }
    }
}

/// PROTOCOL.md 7.4 record
pub fn reply_record(id: u16, source: &IpAddr, type_id: u8, code: u8, seq: u16) -> Vec<u8> {
    let mut v = vec![];
    v.extend_from_slice(&id.to_be_bytes());
    v.extend_from_slice(&encode_ip(source));
    v.push(type_id);
    v.push(code);
    v.extend_from_slice(&seq.to_be_bytes());
    v
}

pub const REQUEST_SIZE: usize = 2 + 16 + 2 + 1 + 2;

#[derive(Debug, Clone, PartialEq, Eq)]
pub struct Request {
    pub id: u16,
    pub destination: IpAddr,
    pub seq: u16,
    pub ttl: u8,
    pub data_size: u16,
}

/// PROTOCOL.md 7.3 record
pub fn decode_request(b: &[u8]) -> Request {
    assert_eq!(b.len(), REQUEST_SIZE);
    Request {
        id: u16::from_be_bytes([b[0], b[1]]),
        destination: decode_ip(&b[2..18]),
        seq: u16::from_be_bytes([b[18], b[19]]),
        ttl: b[20],
        data_size: u16::from_be_bytes([b[21], b[22]]),
    }
}

pub fn encode_request(r: &Request) -> Vec<u8> {
    let mut v = vec![];
    v.extend_from_slice(&r.id.to_be_bytes());
    v.extend_from_slice(&encode_ip(&r.destination));
    v.extend_from_slice(&r.seq.to_be_bytes());
    v.push(r.ttl);
    v.extend_from_slice(&r.data_size.to_be_bytes());
    v
}
