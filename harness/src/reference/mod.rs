//! Independent reference models, written from PROTOCOL.md / CONFIGURATION.md / RFCs.
pub mod iana;
pub mod icmp;
pub mod rules;
pub mod udpmux;
