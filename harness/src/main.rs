mod engine;
mod props;
mod reference;

use engine::{Ctx, Report, Tier, Violation};
use serde_json::{json, Value};
use std::collections::BTreeMap;
use std::process::{Command, Stdio};
use std::time::Instant;

fn arg_value(args: &[String], name: &str) -> Option<String> {
    args.iter()
        .position(|a| a == name)
        .and_then(|i| args.get(i + 1).cloned())
}

fn seed_from_env() -> u64 {
    let s = std::env::var("VERIF_SEED")
        .ok()
        .and_then(|s| s.trim().parse::<i128>().ok())
        .unwrap_or(0);
    if s == 0 {
        0x5eed_7711_2026
    } else {
        s as u64
    }
}

fn tier_of(args: &[String]) -> Tier {
    let t = arg_value(args, "--tier")
        .or_else(|| std::env::var("VERIF_TIER").ok())
        .unwrap_or_else(|| "quick".into());
    if t == "thorough" {
        Tier::Thorough
    } else {
        Tier::Quick
    }
}

fn main() {
    let args: Vec<String> = std::env::args().collect();
    if args.len() < 3 {
        eprintln!("usage: ttv run <ID> [--tier quick|thorough] [--suite S] | ttv worker ... | ttv replay <FILE>");
        std::process::exit(2);
    }
    // quiet panics, but counted: a panic inside a task spawned by the library is swallowed by
    // the runtime, so the count is the only trace it leaves
    std::panic::set_hook(Box::new(|info| engine::panics::note(info)));
    engine::logcap::install();
    match args[1].as_str() {
        "run" => {
            let rc = run_parent(&args);
            engine::logcap::cleanup();
            std::process::exit(rc)
        }
        "worker" => {
            let rc = run_worker(&args);
            engine::logcap::cleanup();
            std::process::exit(rc)
        }
        "replay" => {
            let rc = run_replay(&args);
            engine::logcap::cleanup();
            std::process::exit(rc)
        }
        _ => {
            eprintln!("unknown command");
            std::process::exit(2);
        }
    }
}

fn run_worker(args: &[String]) -> i32 {
    let id = args[2].clone();
    let Some(def) = props::find(&id) else {
        eprintln!("unknown property {}", id);
        return 2;
    };
    let tier = tier_of(args);
    let shard: u32 = arg_value(args, "--shard").unwrap().parse().unwrap();
    let nshards: u32 = arg_value(args, "--of").unwrap().parse().unwrap();
    let out = arg_value(args, "--out").unwrap();
    engine::watchdog::install(format!("{}.hang", out));
    engine::SHARD.store(shard, std::sync::atomic::Ordering::SeqCst);
    let mut ctx = Ctx {
        prop: def.id,
        tier,
        seed: seed_from_env(),
        shard,
        nshards,
        report: Report::default(),
        known: engine::load_known(),
        strict: false,
        only_suite: arg_value(args, "--suite"),
    };
    (def.run)(&mut ctx);
    std::fs::write(&out, serde_json::to_string(&ctx.report).unwrap()).unwrap();
    0
}

fn run_parent(args: &[String]) -> i32 {
    let started = Instant::now();
    let id = args[2].clone();
    let Some(def) = props::find(&id) else {
        eprintln!("unknown property {}", id);
        return 2;
    };
    let tier = tier_of(args);
    let seed = seed_from_env();
    let workers: u32 = std::env::var("VERIF_WORKERS")
        .ok()
        .and_then(|s| s.parse().ok())
        .unwrap_or_else(|| (def.workers)(tier));
    let run_dir = format!("{}/target/run", engine::VERIF_ROOT);
    let _ = std::fs::create_dir_all(&run_dir);
    let exe = std::env::current_exe().unwrap();
    let mut children = vec![];
    for shard in 0..workers {
        let out = format!("{}/{}-{}-{}.json", run_dir, id, std::process::id(), shard);
        let _ = std::fs::remove_file(&out);
        let _ = std::fs::remove_file(format!("{}.hang", out));
        let mut cmd = Command::new(&exe);
        cmd.arg("worker")
            .arg(&id)
            .arg("--tier")
            .arg(tier.name())
            .arg("--shard")
            .arg(shard.to_string())
            .arg("--of")
            .arg(workers.to_string())
            .arg("--out")
            .arg(&out)
            .env("RUST_BACKTRACE", "0")
            .stdin(Stdio::null())
            .stderr(Stdio::null());
        if let Some(s) = arg_value(args, "--suite") {
            cmd.arg("--suite").arg(s);
        }
        children.push((shard, out, cmd.spawn().expect("spawn worker")));
    }

    let known = engine::load_known();
    let mut report = Report::default();
    for (shard, out, mut child) in children {
        let status = child.wait().expect("wait worker");
        let hang_file = format!("{}.hang", out);
        match status.code() {
            Some(0) => match std::fs::read_to_string(&out)
                .ok()
                .and_then(|t| serde_json::from_str::<Report>(&t).ok())
            {
                Some(r) => report.merge(r),
                None => report
                    .inconclusive
                    .push(format!("worker {}: no report", shard)),
            },
            Some(3) | Some(4) => {
                let h: Value = std::fs::read_to_string(&hang_file)
                    .ok()
                    .and_then(|t| serde_json::from_str(&t).ok())
                    .unwrap_or(Value::Null);
                let sig = h["sig"].as_str().unwrap_or("hang").to_string();
                if status.code() == Some(3) {
                    if known
                        .iter()
                        .any(|k| k.property == id && k.status == "known" && k.signature == sig)
                    {
                        *report.known_hits.entry(sig).or_default() += 1;
                    } else if !report.violations.iter().any(|x| x.sig == sig) {
                        report.violations.push(engine::ViolationRec {
                            suite: h["suite"].as_str().unwrap_or("?").to_string(),
                            sig,
                            msg: h["msg"].as_str().unwrap_or("").to_string(),
                            replay: h["replay"].as_str().unwrap_or("").to_string(),
                        });
                    }
                } else {
                    report.inconclusive.push(format!(
                        "worker {}: {} ({})",
                        shard,
                        sig,
                        h["msg"].as_str().unwrap_or("")
                    ));
                }
            }
            other => report
                .inconclusive
                .push(format!("worker {} ended abnormally: {:?}", shard, other)),
        }
        let _ = std::fs::remove_file(&out);
        let _ = std::fs::remove_file(&hang_file);
    }

    if tier == Tier::Thorough && !def.fuzz.is_empty() && arg_value(args, "--suite").is_none() {
        let runs: u64 = std::env::var("VERIF_FUZZ_RUNS").ok().and_then(|s| s.parse().ok()).unwrap_or(2_000_000);
        engine::fuzz::run_all(def.id, def.fuzz, runs, seed, &mut report);
    }

    finish(def, tier, seed, report, started, &known, arg_value(args, "--suite").is_some())
}

fn finish(
    def: &props::PropDef,
    tier: Tier,
    seed: u64,
    mut report: Report,
    started: Instant,
    known: &[engine::KnownFinding],
    partial: bool,
) -> i32 {
    // generator health: every required class must have been reached
    for (name, s) in &report.suites {
        for r in &s.required {
            if s.classes.get(r).copied().unwrap_or(0) == 0 && s.evaluations > 0 {
                report.inconclusive.push(format!(
                    "suite {}: required class '{}' never generated",
                    name, r
                ));
            }
        }
    }
    let evaluations: u64 = report.suites.values().map(|s| s.evaluations).sum();
    let distinct: u64 = report
        .suites
        .values()
        .map(|s| s.nontrivial_hashes.len() as u64 + s.nontrivial_direct)
        .sum();
    let mut samples = vec![];
    let mut per_suite = BTreeMap::new();
    let mut rules = vec![];
    let mut exhaustive_suites = vec![];
    for (name, s) in &report.suites {
        for c in s.samples.iter().take(2) {
            samples.push(json!({"suite": name, "case": c}));
        }
        if s.exhaustive == Some(true) {
            exhaustive_suites.push(name.clone());
        }
        rules.push(format!("[{}] {}", name, s.rule));
        per_suite.insert(
            name.clone(),
            json!({
                "evaluations": s.evaluations,
                "distinct_nontrivial": s.nontrivial_hashes.len() as u64 + s.nontrivial_direct,
                "classes": s.classes,
                "exhaustive": s.exhaustive.unwrap_or(false),
                "notes": s.notes,
            }),
        );
    }
    let all_exhaustive =
        !report.suites.is_empty() && report.suites.values().all(|s| s.exhaustive == Some(true));
    let evidence = json!({
        "property_id": def.id,
        "tier": tier.name(),
        "seed": seed as i64,
        "level": def.level,
        "coverage": {
            "evaluations": evaluations,
            "distinct_nontrivial": distinct,
            "rule": rules.join(" | "),
            "samples": samples,
            "exhaustive": all_exhaustive,
            "exhaustive_suites": exhaustive_suites,
            "suites": per_suite,
            "known_finding_hits": report.known_hits,
            "inconclusive": report.inconclusive,
        },
        "assumptions": report.assumptions.iter().collect::<Vec<_>>(),
        "wall_s": started.elapsed().as_secs_f64(),
        "violations": report.violations.len(),
    });
    // a run restricted to one suite (--suite) is a debugging aid: it does not replace the
    // property's evidence file
    let ev_dir = if partial { format!("{}/target/evidence-partial", engine::VERIF_ROOT) } else { format!("{}/evidence", engine::VERIF_ROOT) };
    let _ = std::fs::create_dir_all(&ev_dir);
    std::fs::write(
        format!("{}/{}.json", ev_dir, def.id),
        serde_json::to_string_pretty(&evidence).unwrap() + "\n",
    )
    .expect("write evidence");

    println!(
        "{} tier={} seed={} evaluations={} distinct_nontrivial={} wall={:.1}s",
        def.id,
        tier.name(),
        seed,
        evaluations,
        distinct,
        started.elapsed().as_secs_f64()
    );
    for (name, s) in &report.suites {
        println!(
            "  suite {:<28} evals={:<10} nontrivial={:<9} classes={:?}",
            name,
            s.evaluations,
            s.nontrivial_hashes.len() as u64 + s.nontrivial_direct,
            s.classes
        );
    }
    for k in known
        .iter()
        .filter(|k| k.property == def.id && k.status == "known")
    {
        println!(
            "KNOWN-FINDING: property={} {} [{}] (hits this run: {})",
            def.id,
            k.what,
            k.signature,
            report.known_hits.get(&k.signature).copied().unwrap_or(0)
        );
    }
    for v in &report.violations {
        println!("  violation in suite {}: {}: {}", v.suite, v.sig, v.msg);
        println!("VIOLATION property={} replay={}", def.id, v.replay);
    }
    if !report.violations.is_empty() {
        return 1;
    }
    if !report.inconclusive.is_empty() {
        for i in &report.inconclusive {
            println!("INCONCLUSIVE: {}", i);
        }
        return 2;
    }
    0
}

fn run_replay(args: &[String]) -> i32 {
    let started = Instant::now();
    let path = &args[2];
    let body: Value = match std::fs::read_to_string(path)
        .ok()
        .and_then(|t| serde_json::from_str(&t).ok())
    {
        Some(v) => v,
        None => {
            eprintln!("cannot read replay file {}", path);
            return 2;
        }
    };
    let id = body["property"].as_str().unwrap_or("").to_string();
    let Some(def) = props::find(&id) else {
        eprintln!("unknown property in replay file");
        return 2;
    };
    let suite = body["suite"].as_str().unwrap_or("").to_string();
    engine::watchdog::install(format!(
        "{}/target/run/replay-{}.hang",
        engine::VERIF_ROOT,
        std::process::id()
    ));
    let mut ctx = Ctx {
        prop: def.id,
        tier: Tier::Quick,
        seed: seed_from_env(),
        shard: 0,
        nshards: 1,
        report: Report::default(),
        known: vec![],
        strict: true,
        only_suite: None,
    };
    if let Some(target) = suite.strip_prefix("fuzz-") {
        return match engine::fuzz::replay(target, body["case"]["artifact_hex"].as_str().unwrap_or("")) {
            Some(true) => {
                println!("replayed {} suite={} violations=0", id, suite);
                0
            }
            Some(false) => {
                println!("VIOLATION property={} replay={}", def.id, path);
                1
            }
            None => 2,
        };
    }
    if !(def.replay)(&mut ctx, &suite, &body["case"]) {
        eprintln!("suite {} cannot replay this case", suite);
        return 2;
    }
    let _ = Violation {
        sig: String::new(),
        msg: String::new(),
    };
    for v in &ctx.report.violations {
        println!("  violation in suite {}: {}: {}", v.suite, v.sig, v.msg);
        println!("VIOLATION property={} replay={}", def.id, path);
    }
    println!(
        "replayed {} suite={} violations={} wall={:.2}s",
        id,
        suite,
        ctx.report.violations.len(),
        started.elapsed().as_secs_f64()
    );
    if ctx.report.violations.is_empty() {
        0
    } else {
        1
    }
}
