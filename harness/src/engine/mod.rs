//! Common machinery: seeded proptest runner, case classification and hashing, replay files,
//! known findings, watchdog, worker sharding and evidence output.

pub mod aio;
pub mod fuzz;
pub mod networld;
pub mod proc;
pub mod quic;
pub mod logcap;
pub mod panics;
pub mod watchdog;
pub mod world;

use proptest::strategy::{Strategy, ValueTree};
use proptest::test_runner::{Config, RngAlgorithm, TestCaseError, TestError, TestRng, TestRunner};
use serde::de::DeserializeOwned;
use serde::{Deserialize, Serialize};
use serde_json::{json, Value};
use std::collections::{BTreeMap, BTreeSet};
use std::fmt::Debug;
use std::hash::{Hash, Hasher};
use std::panic::AssertUnwindSafe;
use std::path::{Path, PathBuf};

pub const VERIF_ROOT: &str = "/verif";

/// shard index of this worker process (0 in replay mode)
pub static SHARD: std::sync::atomic::AtomicU32 = std::sync::atomic::AtomicU32::new(0);

#[derive(Copy, Clone, Debug, PartialEq, Eq, Serialize, Deserialize)]
#[serde(rename_all = "lowercase")]
pub enum Tier {
    Quick,
    Thorough,
}

impl Tier {
    pub fn pick<T>(self, quick: T, thorough: T) -> T {
        match self {
            Tier::Quick => quick,
            Tier::Thorough => thorough,
        }
    }
    pub fn name(self) -> &'static str {
        self.pick("quick", "thorough")
    }
}

/// A failed oracle clause. `sig` names the clause (stable, used to key known findings);
/// `msg` describes this particular failure.
#[derive(Debug, Clone, Serialize, Deserialize)]
pub struct Violation {
    pub sig: String,
    pub msg: String,
}

pub type Verdict = Result<(), Violation>;

pub fn viol<T>(sig: &str, msg: impl Into<String>) -> Result<T, Violation> {
    Err(Violation {
        sig: sig.to_string(),
        msg: msg.into(),
    })
}

#[macro_export]
macro_rules! ensure {
    ($cond:expr, $sig:expr, $($arg:tt)*) => {
        if !($cond) {
            return Err($crate::engine::Violation { sig: $sig.to_string(), msg: format!($($arg)*) });
        }
    };
}

#[derive(Debug, Clone, Serialize, Deserialize)]
pub struct KnownFinding {
    pub property: String,
    pub signature: String,
    pub status: String, // "known" | "fixed"
    #[serde(default)]
    pub commit: String,
    pub what: String,
}

#[derive(Debug, Clone, Serialize, Deserialize)]
pub struct ViolationRec {
    pub suite: String,
    pub sig: String,
    pub msg: String,
    pub replay: String,
}

#[derive(Debug, Default, Clone, Serialize, Deserialize)]
pub struct SuiteReport {
    pub evaluations: u64,
    pub nontrivial_hashes: BTreeSet<u64>,
    /// distinct non-trivial cases counted directly (exhaustive enumerations, distinct by construction)
    pub nontrivial_direct: u64,
    pub classes: BTreeMap<String, u64>,
    pub samples: Vec<Value>,
    pub exhaustive: Option<bool>,
    pub rule: String,
    pub notes: Vec<String>,
    pub required: Vec<String>,
}

#[derive(Debug, Default, Clone, Serialize, Deserialize)]
pub struct Report {
    pub suites: BTreeMap<String, SuiteReport>,
    pub violations: Vec<ViolationRec>,
    pub known_hits: BTreeMap<String, u64>,
    pub inconclusive: Vec<String>,
    pub assumptions: BTreeSet<String>,
}

impl Report {
    pub fn merge(&mut self, other: Report) {
        for (name, s) in other.suites {
            let d = self.suites.entry(name).or_default();
            d.evaluations += s.evaluations;
            d.nontrivial_hashes.extend(s.nontrivial_hashes);
            d.nontrivial_direct += s.nontrivial_direct;
            for (k, v) in s.classes {
                *d.classes.entry(k).or_default() += v;
            }
            for x in s.samples {
                if d.samples.len() < 4 {
                    d.samples.push(x);
                }
            }
            d.exhaustive = match (d.exhaustive, s.exhaustive) {
                (Some(a), Some(b)) => Some(a && b),
                (a, b) => a.or(b),
            };
            if d.rule.is_empty() {
                d.rule = s.rule;
            }
            for r in s.required {
                if !d.required.contains(&r) {
                    d.required.push(r);
                }
            }
            for n in s.notes {
                if !d.notes.contains(&n) {
                    d.notes.push(n);
                }
            }
        }
        for v in other.violations {
            if !self
                .violations
                .iter()
                .any(|x| x.suite == v.suite && x.sig == v.sig)
            {
                self.violations.push(v);
            }
        }
        for (k, v) in other.known_hits {
            *self.known_hits.entry(k).or_default() += v;
        }
        self.inconclusive.extend(other.inconclusive);
        self.inconclusive.sort();
        self.inconclusive.dedup();
        self.assumptions.extend(other.assumptions);
    }
}

pub struct Ctx {
    pub prop: &'static str,
    pub tier: Tier,
    pub seed: u64,
    pub shard: u32,
    pub nshards: u32,
    pub report: Report,
    pub known: Vec<KnownFinding>,
    /// strict = replay mode: known findings are not tolerated silently
    pub strict: bool,
    /// optional suite filter (debugging)
    pub only_suite: Option<String>,
}

pub fn load_known() -> Vec<KnownFinding> {
    let path = Path::new(VERIF_ROOT).join("known_findings.jsonl");
    let Ok(text) = std::fs::read_to_string(path) else {
        return vec![];
    };
    text.lines()
        .filter(|l| !l.trim().is_empty())
        .filter_map(|l| serde_json::from_str(l).ok())
        .collect()
}

pub fn hash_value(v: &Value) -> u64 {
    let mut h = std::collections::hash_map::DefaultHasher::new();
    v.to_string().hash(&mut h);
    h.finish()
}

fn mix(seed: u64, s: &str, shard: u32) -> [u8; 32] {
    let mut out = [0u8; 32];
    for (i, chunk) in out.chunks_mut(8).enumerate() {
        let mut h = std::collections::hash_map::DefaultHasher::new();
        seed.hash(&mut h);
        s.hash(&mut h);
        shard.hash(&mut h);
        (i as u64).hash(&mut h);
        chunk.copy_from_slice(&h.finish().to_le_bytes());
    }
    out
}

/// One generated-input check: generator, classifier, oracle.
pub trait Suite {
    type Case: Serialize + DeserializeOwned + Debug + Clone;
    fn name(&self) -> &'static str;
    /// how cases are generated and what makes one non-trivial
    fn rule(&self) -> String;
    fn strategy(&self, tier: Tier) -> proptest::strategy::BoxedStrategy<Self::Case>;
    /// total number of cases over all shards
    fn cases(&self, tier: Tier) -> u64;
    /// class labels of the case; the label "nontrivial" feeds distinct_nontrivial
    fn classify(&self, case: &Self::Case) -> Vec<&'static str>;
    /// classes that must be reached at least once over the whole run (else exit 2)
    fn required_classes(&self) -> Vec<&'static str> {
        vec!["nontrivial"]
    }
    fn check(&self, case: &Self::Case) -> Verdict;
}

thread_local! {
    static EXTRA: std::cell::RefCell<BTreeMap<String, u64>> = std::cell::RefCell::new(BTreeMap::new());
}

/// Count something from inside a check (e.g. the number of segmentations tried for one case).
pub fn bump(class: &str, n: u64) {
    EXTRA.with(|e| *e.borrow_mut().entry(class.to_string()).or_default() += n);
}

thread_local! {
    static NOTES: std::cell::RefCell<Vec<String>> = const { std::cell::RefCell::new(Vec::new()) };
}

/// Something worth telling in the evidence of the running suite (kept: the first three)
pub fn note(text: String) {
    NOTES.with(|n| n.borrow_mut().push(text));
}

fn take_notes() -> Vec<String> {
    NOTES.with(|n| std::mem::take(&mut *n.borrow_mut()))
}

fn take_extra() -> BTreeMap<String, u64> {
    EXTRA.with(|e| std::mem::take(&mut *e.borrow_mut()))
}

pub fn replay_dir() -> PathBuf {
    let d = Path::new(VERIF_ROOT).join("replays");
    let _ = std::fs::create_dir_all(&d);
    d
}

pub fn write_replay(prop: &str, suite: &str, case: &Value, v: &Violation) -> String {
    let h = hash_value(&json!([suite, case, v.sig]));
    let path = replay_dir().join(format!("{}-{}-{:016x}.json", prop, suite, h));
    let body = json!({
        "property": prop,
        "suite": suite,
        "signature": v.sig,
        "message": v.msg,
        "case": case,
    });
    let _ = std::fs::write(&path, serde_json::to_string_pretty(&body).unwrap());
    path.to_string_lossy().into_owned()
}

/// Runs `f`, turning a panic into a violation with the given signature.
pub fn no_panic<T>(sig: &str, f: impl FnOnce() -> T) -> Result<T, Violation> {
    match std::panic::catch_unwind(AssertUnwindSafe(f)) {
        Ok(x) => Ok(x),
        Err(e) => {
            let msg = if let Some(s) = e.downcast_ref::<String>() {
                s.clone()
            } else if let Some(s) = e.downcast_ref::<&str>() {
                s.to_string()
            } else {
                "panic".to_string()
            };
            viol(sig, format!("panic: {}", msg))
        }
    }
}

impl Ctx {
    pub fn suite_enabled(&self, name: &str) -> bool {
        self.only_suite.as_deref().map_or(true, |s| s == name)
    }

    pub fn suite_mut(&mut self, name: &str) -> &mut SuiteReport {
        self.report.suites.entry(name.to_string()).or_default()
    }

    pub fn assume(&mut self, text: &str) {
        self.report.assumptions.insert(text.to_string());
    }

    pub fn is_known(&self, sig: &str) -> bool {
        !self.strict
            && self
                .known
                .iter()
                .any(|k| k.property == self.prop && k.status == "known" && k.signature == sig)
    }

    /// Record one explored case of an enumerated (non-proptest) suite.
    pub fn record(&mut self, suite: &str, classes: &[&str], sample: impl FnOnce() -> Value) {
        let s = self.suite_mut(suite);
        s.evaluations += 1;
        let mut nontrivial = false;
        for c in classes {
            *s.classes.entry(c.to_string()).or_default() += 1;
            nontrivial |= *c == "nontrivial";
        }
        if nontrivial {
            s.nontrivial_direct += 1;
            if s.samples.len() < 3 {
                s.samples.push(sample());
            }
        }
    }

    /// Record many explored cases of an enumerated suite at once.
    pub fn record_bulk(
        &mut self,
        suite: &str,
        evaluations: u64,
        nontrivial_distinct: u64,
        classes: &[(&str, u64)],
        samples: Vec<Value>,
    ) {
        let s = self.suite_mut(suite);
        s.evaluations += evaluations;
        s.nontrivial_direct += nontrivial_distinct;
        for (c, n) in classes {
            *s.classes.entry(c.to_string()).or_default() += n;
        }
        for x in samples {
            if s.samples.len() < 3 {
                s.samples.push(x);
            }
        }
    }

    /// Report a violation found by an enumerated suite. Returns true when it is a known finding.
    pub fn violation(&mut self, suite: &str, case: Value, v: Violation) -> bool {
        if v.sig.starts_with("harness:") {
            // the environment or the harness failed, not the code under test: inconclusive
            let line = format!("suite {}: {}: {}", suite, v.sig, v.msg);
            if !self.report.inconclusive.iter().any(|x| x.starts_with(&format!("suite {}: {}", suite, v.sig))) {
                self.report.inconclusive.push(line);
            }
            return false;
        }
        if self.is_known(&v.sig) {
            *self.report.known_hits.entry(v.sig.clone()).or_default() += 1;
            return true;
        }
        if self
            .report
            .violations
            .iter()
            .any(|x| x.suite == suite && x.sig == v.sig)
        {
            return false; // one replay per (suite, signature)
        }
        let replay = write_replay(self.prop, suite, &case, &v);
        self.report.violations.push(ViolationRec {
            suite: suite.to_string(),
            sig: v.sig,
            msg: v.msg,
            replay,
        });
        false
    }

    /// Share of `total` that this shard has to do (sums to `total` over all shards).
    pub fn share(&self, total: u64) -> u64 {
        let n = self.nshards as u64;
        total / n + u64::from((self.shard as u64) < total % n)
    }

    /// Run a proptest-driven suite.
    pub fn run_suite<S: Suite>(&mut self, suite: &S) {
        let name = suite.name();
        if !self.suite_enabled(name) {
            return;
        }
        let cases = self.share(suite.cases(self.tier));
        {
            let s = self.suite_mut(name);
            s.rule = suite.rule();
            s.required = suite.required_classes().iter().map(|x| x.to_string()).collect();
        }
        if cases == 0 {
            return;
        }
        let _ = take_extra();
        let config = Config {
            cases: cases as u32,
            failure_persistence: None,
            max_shrink_iters: 2000,
            max_shrink_time: 40_000,
            max_global_rejects: 1 << 20,
            ..Config::default()
        };
        let rng = TestRng::from_seed(RngAlgorithm::ChaCha, &mix(self.seed, name, self.shard));
        let mut runner = TestRunner::new_with_rng(config, rng);
        let strategy = suite.strategy(self.tier);

        struct St {
            local: SuiteReport,
            known_hits: BTreeMap<String, u64>,
            failed: bool,
            last_violation: Option<Violation>,
        }
        let st = std::cell::RefCell::new(St {
            local: SuiteReport::default(),
            known_hits: BTreeMap::new(),
            failed: false,
            last_violation: None,
        });
        let known: Vec<String> = self
            .known
            .iter()
            .filter(|k| !self.strict && k.property == self.prop && k.status == "known")
            .map(|k| k.signature.clone())
            .collect();
        let prop = self.prop;

        let result = runner.run(&strategy, |case| {
            let value = serde_json::to_value(&case).unwrap_or(Value::Null);
            watchdog::begin_case(prop, name, &value);
            let panics_before = panics::count();
            let verdict = match std::panic::catch_unwind(AssertUnwindSafe(|| suite.check(&case))) {
                Ok(v) => v,
                Err(e) => {
                    let msg = if let Some(s) = e.downcast_ref::<String>() {
                        s.clone()
                    } else if let Some(s) = e.downcast_ref::<&str>() {
                        s.to_string()
                    } else {
                        "panic".to_string()
                    };
                    Err(Violation {
                        sig: format!("panic:{}", name),
                        msg: format!("panic: {}", msg),
                    })
                }
            };
            watchdog::end_case();
            let verdict = match verdict {
                Ok(()) if panics::count() > panics_before => Err(Violation {
                    sig: format!("panic:background-task:{}", panics::last_site()),
                    msg: format!("a panic happened in a background task or thread during this case: {}", panics::last_message()),
                }),
                v => v,
            };
            // A case that ran on the real clock (real sockets, child processes) contains waits in
            // wall-clock time; on a loaded machine a late wake-up can fail it without any defect.
            // Such a failure is believed only if the same case fails again in one of two
            // immediate re-executions; otherwise it is counted and reported as unconfirmed.
            let real_clock = aio::take_real_clock_used();
            let verdict = match verdict {
                Err(first) if real_clock && !first.sig.starts_with("harness:") => {
                    let mut confirmed = None;
                    for _ in 0..2 {
                        watchdog::begin_case(prop, name, &value);
                        let again = std::panic::catch_unwind(AssertUnwindSafe(|| suite.check(&case)));
                        watchdog::end_case();
                        let _ = aio::take_real_clock_used();
                        match again {
                            Ok(Ok(())) => {}
                            Ok(Err(v)) if v.sig.starts_with("harness:") => {}
                            Ok(Err(v)) => {
                                confirmed = Some(if v.sig == first.sig { first.clone() } else { v });
                                break;
                            }
                            Err(_) => {
                                confirmed = Some(first.clone());
                                break;
                            }
                        }
                    }
                    match confirmed {
                        Some(v) => Err(v),
                        None => {
                            bump("unconfirmed-real-clock-failure", 1);
                            note(format!("a real-clock case failed once and passed twice on re-execution (not counted): {} {}", first.sig, first.msg.chars().take(600).collect::<String>()));
                            Ok(())
                        }
                    }
                }
                v => v,
            };
            let extra = take_extra();
            let notes = take_notes();
            let mut st = st.borrow_mut();
            let st = &mut *st;
            if !st.failed {
                for n in notes {
                    if st.local.notes.len() < 3 {
                        st.local.notes.push(n);
                    }
                }
                for (k, v) in extra {
                    *st.local.classes.entry(k).or_default() += v;
                }
                st.local.evaluations += 1;
                let classes = suite.classify(&case);
                let mut nontrivial = false;
                for c in &classes {
                    *st.local.classes.entry(c.to_string()).or_default() += 1;
                    nontrivial |= *c == "nontrivial";
                }
                if nontrivial {
                    let h = hash_value(&value);
                    if st.local.nontrivial_hashes.insert(h) && st.local.samples.len() < 3 {
                        st.local.samples.push(value.clone());
                    }
                }
            }
            match verdict {
                Ok(()) => Ok(()),
                Err(v) if known.contains(&v.sig) => {
                    if !st.failed {
                        *st.known_hits.entry(v.sig.clone()).or_default() += 1;
                    }
                    Ok(())
                }
                Err(v) => {
                    st.failed = true;
                    let reason = format!("{}: {}", v.sig, v.msg);
                    st.last_violation = Some(v);
                    Err(TestCaseError::fail(reason))
                }
            }
        });
        let St {
            local,
            known_hits,
            last_violation,
            ..
        } = st.into_inner();

        let s = self.suite_mut(name);
        s.evaluations += local.evaluations;
        s.nontrivial_hashes.extend(local.nontrivial_hashes);
        for (k, v) in local.classes {
            *s.classes.entry(k).or_default() += v;
        }
        for x in local.samples {
            if s.samples.len() < 3 {
                s.samples.push(x);
            }
        }
        for n in local.notes {
            if s.notes.len() < 3 {
                s.notes.push(n);
            }
        }
        for (k, v) in known_hits {
            *self.report.known_hits.entry(k).or_default() += v;
        }

        match result {
            Ok(()) => {}
            Err(TestError::Fail(_reason, shrunk)) => {
                // recompute the verdict on the shrunk case so the replay carries its own message
                let value = serde_json::to_value(&shrunk).unwrap_or(Value::Null);
                let v = match std::panic::catch_unwind(AssertUnwindSafe(|| suite.check(&shrunk))) {
                    Ok(Err(v)) => v,
                    Ok(Ok(())) => last_violation.clone().unwrap_or(Violation {
                        sig: "unstable".into(),
                        msg: "shrunk case passes on re-run".into(),
                    }),
                    Err(_) => last_violation.clone().unwrap_or(Violation {
                        sig: format!("panic:{}", name),
                        msg: "panic".into(),
                    }),
                };
                self.violation(name, value, v);
            }
            Err(TestError::Abort(reason)) => {
                self.report
                    .inconclusive
                    .push(format!("{}: proptest aborted: {}", name, reason));
            }
        }
    }

    /// Replay one saved case through the suite's oracle, bypassing the generator library.
    pub fn replay_suite<S: Suite>(&mut self, suite: &S, case: &Value) -> bool {
        let name = suite.name();
        let Ok(case_t) = serde_json::from_value::<S::Case>(case.clone()) else {
            return false;
        };
        watchdog::begin_case(self.prop, name, case);
        let panics_before = panics::count();
        let verdict = match std::panic::catch_unwind(AssertUnwindSafe(|| suite.check(&case_t))) {
            Ok(Ok(())) if panics::count() > panics_before => Err(Violation {
                sig: format!("panic:background-task:{}", panics::last_site()),
                msg: format!("a panic happened in a background task or thread during this case: {}", panics::last_message()),
            }),
            Ok(v) => v,
            Err(_) => Err(Violation {
                sig: format!("panic:{}", name),
                msg: format!("panic: {}", panics::last_message()),
            }),
        };
        watchdog::end_case();
        let extra = take_extra();
        let s = self.suite_mut(name);
        for (k, v) in extra {
            *s.classes.entry(k).or_default() += v;
        }
        s.evaluations += 1;
        s.rule = suite.rule();
        *s.classes.entry("replayed".into()).or_default() += 1;
        if let Err(v) = verdict {
            self.violation(name, case.clone(), v);
        }
        true
    }
}

/// Sample `n` values from a strategy with a seeded runner (for enumerated suites that
/// need a few generated ingredients).
pub fn sample_values<T: Debug>(
    strategy: &impl Strategy<Value = T>,
    seed: u64,
    tag: &str,
    n: usize,
) -> Vec<T> {
    let rng = TestRng::from_seed(RngAlgorithm::ChaCha, &mix(seed, tag, 0));
    let mut runner = TestRunner::new_with_rng(Config::default(), rng);
    (0..n)
        .map(|_| strategy.new_tree(&mut runner).unwrap().current())
        .collect()
}

/// Map a 16-bit index monotonically into 0..len (keeps shrinking effective).
pub fn idx(i: u16, len: usize) -> usize {
    if len == 0 {
        0
    } else {
        ((i as usize) * len) >> 16
    }
}

pub fn hex(b: &[u8]) -> String {
    ::hex::encode(b)
}
