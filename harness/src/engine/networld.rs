//! A real endpoint on loopback: `Core::listen` on a TCP port, real TLS, real time.

use super::world::{CoreSpec, World};
use std::io::{Read, Write};
use std::net::SocketAddr;
use std::sync::{Arc, Mutex};
use std::time::Duration;
use tokio::io::{AsyncReadExt, AsyncWriteExt};
use tokio::net::TcpStream;

pub struct NetWorld {
    pub world: World,
    pub addr: SocketAddr,
    pub listen: tokio::task::JoinHandle<std::io::Result<()>>,
}

use super::proc::free_port;

impl NetWorld {
    /// Start the endpoint of `spec` on a free loopback port (the spec's listen address is replaced).
    pub async fn start(spec: &CoreSpec) -> Result<NetWorld, String> {
        Self::start_on(spec, "127.0.0.1").await
    }

    /// Like [`start`] with the listen IP given (`[::]` for a dual-stack listener); the returned
    /// address is the loopback one to connect to.
    pub async fn start_on(spec: &CoreSpec, ip: &str) -> Result<NetWorld, String> {
        let mut last = String::new();
        for _ in 0..20 {
            let port = free_port().map_err(|e| e.to_string())?;
            let addr: SocketAddr = format!("127.0.0.1:{}", port).parse().unwrap();
            let listen: SocketAddr = format!("{}:{}", ip, port).parse().map_err(|e| format!("{}", e))?;
            let spec = CoreSpec { listen, ..spec.clone() };
            let world = spec.build()?;
            let core = world.core.clone();
            let listen = tokio::spawn(async move { core.listen().await });
            // wait until it accepts
            let mut up = false;
            for _ in 0..400 {
                if listen.is_finished() {
                    break;
                }
                if let Ok(s) = TcpStream::connect(addr).await {
                    drop(s);
                    up = true;
                    break;
                }
                tokio::time::sleep(Duration::from_millis(5)).await;
            }
            // the port may have been taken by someone else between the probe and the bind
            tokio::time::sleep(Duration::from_millis(10)).await;
            if up && !listen.is_finished() {
                return Ok(NetWorld { world, addr, listen });
            }
            last = match listen.is_finished() {
                true => format!("{:?}", listen.await),
                false => {
                    listen.abort();
                    "listener did not come up".into()
                }
            };
        }
        Err(format!("cannot start the endpoint on loopback: {}", last))
    }
}

impl Drop for NetWorld {
    fn drop(&mut self) {
        self.listen.abort();
    }
}

/// Accepts every certificate and remembers the leaf it was shown
pub struct RecordingVerifier(pub Mutex<Option<Vec<u8>>>);

impl rustls::client::ServerCertVerifier for RecordingVerifier {
    fn verify_server_cert(
        &self,
        end_entity: &rustls::Certificate,
        _: &[rustls::Certificate],
        _: &rustls::ServerName,
        _: &mut dyn Iterator<Item = &[u8]>,
        _: &[u8],
        _: std::time::SystemTime,
    ) -> Result<rustls::client::ServerCertVerified, rustls::Error> {
        *self.0.lock().unwrap() = Some(end_entity.0.clone());
        Ok(rustls::client::ServerCertVerified::assertion())
    }
}

pub fn client_conn(sni: Option<&str>, alpn: &[Vec<u8>]) -> (rustls::ClientConnection, Arc<RecordingVerifier>) {
    client_conn_frag(sni, alpn, None)
}

/// `fragment` = rustls max_fragment_size: a small value spreads the ClientHello over several records
pub fn client_conn_frag(sni: Option<&str>, alpn: &[Vec<u8>], fragment: Option<usize>) -> (rustls::ClientConnection, Arc<RecordingVerifier>) {
    let verifier = Arc::new(RecordingVerifier(Mutex::new(None)));
    let mut cfg = rustls::ClientConfig::builder()
        .with_safe_defaults()
        .with_custom_certificate_verifier(verifier.clone())
        .with_no_client_auth();
    cfg.alpn_protocols = alpn.to_vec();
    cfg.enable_sni = sni.is_some();
    cfg.max_fragment_size = fragment;
    let name = rustls::ServerName::try_from(sni.unwrap_or("unused.invalid")).unwrap_or_else(|_| rustls::ServerName::try_from("main.x").unwrap());
    (rustls::ClientConnection::new(Arc::new(cfg), name).expect("client connection"), verifier)
}

/// A hand-driven TLS client (so that the harness decides when each byte is sent)
pub struct ManualTls {
    pub conn: rustls::ClientConnection,
    pub sock: TcpStream,
    pub verifier: Arc<RecordingVerifier>,
}

#[derive(Debug)]
pub enum TlsEnd {
    /// the peer closed the TCP connection (EOF or reset)
    Closed(String),
    /// nothing within the time allowed
    Quiet,
    /// TLS-level failure (alert, bad record)
    Tls(String),
}

impl ManualTls {
    pub async fn connect(addr: SocketAddr, sni: Option<&str>, alpn: &[Vec<u8>]) -> std::io::Result<ManualTls> {
        let sock = TcpStream::connect(addr).await?;
        sock.set_nodelay(true)?;
        let (conn, verifier) = client_conn(sni, alpn);
        Ok(ManualTls { conn, sock, verifier })
    }

    pub fn pending_tls(&mut self) -> Vec<u8> {
        let mut out = vec![];
        while self.conn.wants_write() {
            if self.conn.write_tls(&mut out).is_err() {
                break;
            }
        }
        out
    }

    async fn flush_tls(&mut self) -> Result<(), TlsEnd> {
        let out = self.pending_tls();
        if !out.is_empty() {
            self.sock.write_all(&out).await.map_err(|e| TlsEnd::Closed(e.to_string()))?;
        }
        Ok(())
    }

    /// Read once from the socket into the TLS state (up to `limit`)
    async fn pump(&mut self, limit: Duration) -> Result<(), TlsEnd> {
        let mut buf = vec![0u8; 16384];
        match tokio::time::timeout(limit, self.sock.read(&mut buf)).await {
            Err(_) => Err(TlsEnd::Quiet),
            Ok(Ok(0)) => Err(TlsEnd::Closed("eof".into())),
            Ok(Err(e)) => Err(TlsEnd::Closed(e.to_string())),
            Ok(Ok(n)) => {
                let mut rd = &buf[..n];
                while !rd.is_empty() {
                    match self.conn.read_tls(&mut rd) {
                        Ok(0) => break,
                        Ok(_) => {}
                        Err(e) => return Err(TlsEnd::Tls(e.to_string())),
                    }
                    if let Err(e) = self.conn.process_new_packets() {
                        return Err(TlsEnd::Tls(e.to_string()));
                    }
                }
                Ok(())
            }
        }
    }

    /// Complete the handshake (whatever was already sent by hand stays sent)
    pub async fn handshake(&mut self, limit: Duration) -> Result<(), TlsEnd> {
        let deadline = tokio::time::Instant::now() + limit;
        loop {
            self.flush_tls().await?;
            if !self.conn.is_handshaking() {
                return Ok(());
            }
            let left = deadline.saturating_duration_since(tokio::time::Instant::now());
            if left.is_zero() {
                return Err(TlsEnd::Quiet);
            }
            self.pump(left).await?;
        }
    }

    pub async fn send(&mut self, data: &[u8]) -> Result<(), TlsEnd> {
        self.conn.writer().write_all(data).map_err(|e| TlsEnd::Tls(e.to_string()))?;
        self.flush_tls().await
    }

    /// Application bytes received until `done(bytes)` or an end condition
    pub async fn recv_until(&mut self, limit: Duration, done: impl Fn(&[u8]) -> bool) -> (Vec<u8>, Option<TlsEnd>) {
        let deadline = tokio::time::Instant::now() + limit;
        let mut got = vec![];
        loop {
            let mut tmp = vec![0u8; 16384];
            loop {
                match self.conn.reader().read(&mut tmp) {
                    Ok(0) => return (got, Some(TlsEnd::Closed("close_notify".into()))),
                    Ok(n) => got.extend_from_slice(&tmp[..n]),
                    Err(_) => break,
                }
            }
            if done(&got) {
                return (got, None);
            }
            let left = deadline.saturating_duration_since(tokio::time::Instant::now());
            if left.is_zero() {
                return (got, Some(TlsEnd::Quiet));
            }
            if let Err(e) = self.pump(left).await {
                return (got, Some(e));
            }
            let _ = self.flush_tls().await;
        }
    }

    /// Only watch the socket (never answering) until the peer closes it or `limit` passes
    pub async fn wait_closed(&mut self, limit: Duration) -> Option<Duration> {
        let start = tokio::time::Instant::now();
        let mut buf = vec![0u8; 16384];
        loop {
            let left = limit.saturating_sub(start.elapsed());
            if left.is_zero() {
                return None;
            }
            match tokio::time::timeout(left, self.sock.read(&mut buf)).await {
                Err(_) => return None,
                Ok(Ok(0)) | Ok(Err(_)) => return Some(start.elapsed()),
                Ok(Ok(_)) => {}
            }
        }
    }
}
