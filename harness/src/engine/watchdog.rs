//! Per-worker watchdog. A case that burns CPU for longer than the spin limit without finishing
//! is reported as a violation (`hang:cpu-spin`) with its replay file; a case that merely sits
//! (blocked, starved sandbox) is reported as inconclusive. Both end the worker process.

use serde_json::{json, Value};
use std::sync::Mutex;
use std::time::{Duration, Instant};

struct Current {
    prop: String,
    suite: String,
    case: Value,
    started: Instant,
    cpu_start: Duration,
}

static CURRENT: Mutex<Option<Current>> = Mutex::new(None);
static LIMITS: Mutex<(Duration, Duration)> =
    Mutex::new((Duration::from_secs(20), Duration::from_secs(180)));

fn process_cpu() -> Duration {
    let mut ts = libc::timespec {
        tv_sec: 0,
        tv_nsec: 0,
    };
    unsafe {
        libc::clock_gettime(libc::CLOCK_PROCESS_CPUTIME_ID, &mut ts);
    }
    Duration::new(ts.tv_sec as u64, ts.tv_nsec as u32)
}

pub fn set_limits(spin_cpu: Duration, blocked_wall: Duration) {
    *LIMITS.lock().unwrap() = (spin_cpu, blocked_wall);
}

pub fn begin_case(prop: &str, suite: &str, case: &Value) {
    *CURRENT.lock().unwrap() = Some(Current {
        prop: prop.to_string(),
        suite: suite.to_string(),
        case: case.clone(),
        started: Instant::now(),
        cpu_start: process_cpu(),
    });
}

/// For long enumerations: same "case", fresh budget.
pub fn heartbeat() {
    if let Some(c) = CURRENT.lock().unwrap().as_mut() {
        c.started = Instant::now();
        c.cpu_start = process_cpu();
    }
}

pub fn end_case() {
    *CURRENT.lock().unwrap() = None;
}

pub fn install(hang_file: String) {
    std::thread::spawn(move || loop {
        let before = Instant::now();
        std::thread::sleep(Duration::from_millis(500));
        if before.elapsed() > Duration::from_secs(3) {
            // the whole sandbox was stopped or its clocks jumped (snapshot, migration): both wall
            // and CPU clocks of the running case are meaningless across that - start it afresh
            heartbeat();
            continue;
        }
        let (spin, blocked) = *LIMITS.lock().unwrap();
        let guard = CURRENT.lock().unwrap();
        let Some(c) = guard.as_ref() else { continue };
        let wall = c.started.elapsed();
        let cpu = process_cpu().saturating_sub(c.cpu_start);
        let (kind, code) = if cpu >= spin {
            ("hang:cpu-spin", 3)
        } else if wall >= blocked {
            ("inconclusive:blocked", 4)
        } else {
            continue;
        };
        let v = super::Violation {
            sig: kind.to_string(),
            msg: format!(
                "case did not finish: wall {:.1}s, process cpu {:.1}s",
                wall.as_secs_f64(),
                cpu.as_secs_f64()
            ),
        };
        let replay = if code == 3 {
            super::write_replay(&c.prop, &c.suite, &c.case, &v)
        } else {
            String::new()
        };
        let body = json!({"suite": c.suite, "sig": v.sig, "msg": v.msg, "replay": replay, "case": c.case});
        let _ = std::fs::write(&hang_file, body.to_string());
        unsafe { libc::_exit(code) };
    });
}
