//! Log capture through the endpoint's own logger (`trusttunnel::log_utils::FileLogger`): what a
//! check reads is what an operator would find in the log file, with the endpoint's own filtering
//! and formatting. Capture is on between `start()` and `stop()`; otherwise the level is Off.
//! Installed once per process.

use std::io::{Read, Seek, SeekFrom};
use std::sync::atomic::{AtomicU64, Ordering};
use std::sync::OnceLock;

static PATH: OnceLock<std::path::PathBuf> = OnceLock::new();
/// how far the logger has written (the file is emptied between captures, the logger's own
/// position keeps growing)
static POS: AtomicU64 = AtomicU64::new(0);

pub fn install() {
    let path = std::env::temp_dir().join(format!("ttv-log-{}.txt", std::process::id()));
    if let Ok(logger) = trusttunnel::log_utils::make_file_logger(&path.to_string_lossy()) {
        let _ = log::set_logger(logger);
    }
    log::set_max_level(log::LevelFilter::Off);
    let _ = PATH.set(path);
}

/// Remove the capture file (at process end)
pub fn cleanup() {
    if let Some(p) = PATH.get() {
        let _ = std::fs::remove_file(p);
    }
}

fn file_len() -> u64 {
    PATH.get().and_then(|p| std::fs::metadata(p).ok()).map(|m| m.len()).unwrap_or(0)
}

pub fn start() {
    log::logger().flush();
    POS.store(POS.load(Ordering::SeqCst).max(file_len()), Ordering::SeqCst);
    log::set_max_level(log::LevelFilter::Trace);
}

/// The records written since `start()`, one per element, as `[LEVEL] target message`
pub fn stop() -> Vec<String> {
    log::set_max_level(log::LevelFilter::Off);
    log::logger().flush();
    let Some(path) = PATH.get() else { return vec![] };
    let from = POS.load(Ordering::SeqCst);
    let mut text = vec![];
    if let Ok(mut f) = std::fs::File::open(path) {
        if f.seek(SeekFrom::Start(from)).is_ok() {
            let _ = f.read_to_end(&mut text);
        }
    }
    POS.store(from + text.len() as u64, Ordering::SeqCst);
    // give the disk space back; the logger keeps writing at its own position (sparse file)
    if let Ok(f) = std::fs::OpenOptions::new().write(true).open(path) {
        let _ = f.set_len(0);
    }
    let text = String::from_utf8_lossy(&text);
    let mut out: Vec<String> = vec![];
    for line in text.lines() {
        // "HH:MM:SS.micros [ThreadId(n)] [LEVEL] [target] message"
        let mut it = line.splitn(5, ' ');
        let (t, th, lvl, target, msg) = (it.next(), it.next(), it.next(), it.next(), it.next());
        match (t, th, lvl, target) {
            (Some(t), Some(th), Some(lvl), Some(target))
                if t.len() >= 8 && th.starts_with("[ThreadId(") && lvl.starts_with('[') && target.starts_with('[') =>
            {
                out.push(format!("{} {} {}", lvl, target.trim_start_matches('[').trim_end_matches(']'), msg.unwrap_or("")));
            }
            _ => match out.last_mut() {
                // continuation of a multi-line record
                Some(last) => {
                    last.push('\n');
                    last.push_str(line);
                }
                None => out.push(line.to_string()),
            },
        }
    }
    out
}
