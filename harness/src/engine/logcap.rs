//! Capturing `log::Log`: records every formatted record when capture is on (C20), otherwise
//! discards. Installed once per process.

use std::sync::atomic::{AtomicBool, Ordering};
use std::sync::Mutex;

static CAPTURE: AtomicBool = AtomicBool::new(false);
static RECORDS: Mutex<Vec<String>> = Mutex::new(Vec::new());

struct Cap;

impl log::Log for Cap {
    fn enabled(&self, _: &log::Metadata) -> bool {
        CAPTURE.load(Ordering::Relaxed)
    }
    fn log(&self, record: &log::Record) {
        if CAPTURE.load(Ordering::Relaxed) {
            let line = format!("[{}] {} {}", record.level(), record.target(), record.args());
            RECORDS.lock().unwrap().push(line);
        }
    }
    fn flush(&self) {}
}

pub fn install() {
    let _ = log::set_logger(&Cap);
    log::set_max_level(log::LevelFilter::Off);
}

pub fn start() {
    RECORDS.lock().unwrap().clear();
    CAPTURE.store(true, Ordering::SeqCst);
    log::set_max_level(log::LevelFilter::Trace);
}

pub fn stop() -> Vec<String> {
    CAPTURE.store(false, Ordering::SeqCst);
    log::set_max_level(log::LevelFilter::Off);
    std::mem::take(&mut *RECORDS.lock().unwrap())
}
