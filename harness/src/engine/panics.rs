//! Process-wide panic bookkeeping (the hook is installed in main).

use std::sync::atomic::{AtomicUsize, Ordering};
use std::sync::Mutex;

static COUNT: AtomicUsize = AtomicUsize::new(0);
static LAST: Mutex<(String, String)> = Mutex::new((String::new(), String::new()));

pub fn note(info: &std::panic::PanicHookInfo<'_>) {
    COUNT.fetch_add(1, Ordering::SeqCst);
    let msg = if let Some(s) = info.payload().downcast_ref::<String>() {
        s.clone()
    } else if let Some(s) = info.payload().downcast_ref::<&str>() {
        s.to_string()
    } else {
        "panic".to_string()
    };
    let site = info
        .location()
        .map(|l| {
            let f = l.file();
            let f = f.rsplit('/').next().unwrap_or(f);
            format!("{}", f)
        })
        .unwrap_or_default();
    if let Ok(mut g) = LAST.lock() {
        *g = (site, msg);
    }
}

pub fn count() -> usize {
    COUNT.load(Ordering::SeqCst)
}

pub fn last_site() -> String {
    LAST.lock().map(|g| g.0.clone()).unwrap_or_default()
}

pub fn last_message() -> String {
    LAST.lock().map(|g| g.1.clone()).unwrap_or_default()
}
