//! Building real `Core` instances and talking to them through in-memory transports with a
//! scripted forwarder.

use async_trait::async_trait;
use bytes::Bytes;
use std::io;
use std::net::{IpAddr, SocketAddr};
use std::sync::atomic::{AtomicBool, Ordering};
use std::sync::{Arc, Mutex};
use std::time::Duration;
use tokio::io::{AsyncReadExt, AsyncWriteExt, DuplexStream};
use tokio::sync::mpsc;
use trusttunnel::authentication::registry_based::{Client, RegistryBasedAuthenticator};
use trusttunnel::authentication::{Authenticator, Source, Status};
use trusttunnel::core::Core;
use trusttunnel::settings::{
    Http1Settings, Http2Settings, IcmpSettings, ListenProtocolSettings, MetricsSettings, QuicSettings,
    ReverseProxySettings, Settings, TlsHostInfo, TlsHostsSettings,
};
use trusttunnel::shutdown::Shutdown;
use trusttunnel::verif::pipes::{ByteSink, ByteSource};
use trusttunnel::verif::session::{
    ChannelView, ConnErrView, Connector, ConnectorGuard, MuxPlan, PipeHalves, Proto, TcpMetaView,
    UdpMuxMetaView,
};

pub fn cert_path(i: usize) -> String {
    format!("{}/certs/host{}.pem", super::VERIF_ROOT, i % 6)
}

pub fn host(name: &str, cert: usize, allowed_sni: &[&str]) -> TlsHostInfo {
    TlsHostInfo {
        hostname: name.to_string(),
        cert_chain_path: cert_path(cert),
        private_key_path: cert_path(cert),
        allowed_sni: allowed_sni.iter().map(|s| s.to_string()).collect(),
    }
}

/// An authenticator that accepts one SNI credentials label and the configured Basic pairs
pub struct HarnessAuthenticator {
    pub inner: RegistryBasedAuthenticator,
    pub accepted_sni: Option<String>,
}

impl Authenticator for HarnessAuthenticator {
    fn authenticate(&self, source: &Source<'_>, log_id: &trusttunnel::log_utils::IdChain<u64>) -> Status {
        match source {
            Source::Sni(x) if Some(x.as_ref()) == self.accepted_sni.as_deref() => Status::Pass,
            Source::Sni(_) => Status::Reject,
            other => self.inner.authenticate(other, log_id),
        }
    }
}

#[derive(Clone, Debug)]
pub enum AuthKind {
    None,
    Registry,
    /// registry + accepts this SNI label
    WithSni(Option<String>),
}

#[derive(Clone, Debug)]
pub struct CoreSpec {
    pub clients: Vec<(String, String)>,
    pub auth: AuthKind,
    pub h1: bool,
    pub h2: bool,
    pub quic: bool,
    pub h2_stream_window: Option<u32>,
    pub h2_conn_window: Option<u32>,
    pub listen: SocketAddr,
    pub allow_private: bool,
    pub ipv6_available: bool,
    pub reverse_proxy: Option<(SocketAddr, String)>,
    /// forward through this SOCKS5 proxy (address, extended authentication) instead of directly
    pub socks5: Option<(SocketAddr, bool)>,
    pub speedtest: bool,
    pub icmp: bool,
    pub icmp_timeout: Duration,
    pub metrics: Option<SocketAddr>,
    pub establishment_timeout: Duration,
    pub tcp_timeout: Duration,
    pub udp_timeout: Duration,
    pub listener_timeout: Duration,
    pub handshake_timeout: Duration,
    pub rules: Option<Vec<trusttunnel::rules::Rule>>,
    pub main_hosts: Vec<(String, usize, Vec<String>)>,
    pub ping_hosts: Vec<(String, usize)>,
    pub speed_hosts: Vec<(String, usize)>,
    pub rp_hosts: Vec<(String, usize)>,
}

impl Default for CoreSpec {
    fn default() -> Self {
        Self {
            clients: vec![("user".into(), "pass".into())],
            auth: AuthKind::Registry,
            h1: true,
            h2: true,
            quic: false,
            h2_stream_window: None,
            h2_conn_window: None,
            listen: "127.0.0.1:1".parse().unwrap(),
            allow_private: true,
            ipv6_available: true,
            reverse_proxy: None,
            socks5: None,
            speedtest: false,
            icmp: false,
            icmp_timeout: Duration::from_secs(3),
            metrics: None,
            establishment_timeout: Duration::from_secs(30),
            tcp_timeout: Duration::from_secs(600),
            udp_timeout: Duration::from_secs(120),
            listener_timeout: Duration::from_secs(600),
            handshake_timeout: Duration::from_secs(10),
            rules: None,
            main_hosts: vec![("main.x".into(), 0, vec![])],
            ping_hosts: vec![],
            speed_hosts: vec![],
            rp_hosts: vec![],
        }
    }
}

pub struct World {
    pub core: Arc<Core>,
    pub shutdown: Arc<Mutex<Shutdown>>,
}

impl CoreSpec {
    pub fn settings(&self) -> Result<Settings, String> {
        let mut b = Settings::builder()
            .listen_address(self.listen)
            .map_err(|e| e.to_string())?
            .listen_protocols(ListenProtocolSettings {
                http1: self.h1.then(|| Http1Settings::builder().build()),
                http2: self.h2.then(|| {
                    let mut b = Http2Settings::builder();
                    if let Some(w) = self.h2_stream_window {
                        b = b.initial_stream_window_size(w);
                    }
                    if let Some(w) = self.h2_conn_window {
                        b = b.initial_connection_window_size(w);
                    }
                    b.build()
                }),
                quic: self.quic.then(|| QuicSettings::builder().build()),
            })
            .allow_private_network_connections(self.allow_private)
            .ipv6_available(self.ipv6_available)
            .speedtest_enable(self.speedtest)
            .connection_establishment_timeout(self.establishment_timeout)
            .tcp_connections_timeout(self.tcp_timeout)
            .udp_connections_timeout(self.udp_timeout)
            .client_listener_timeout(self.listener_timeout)
            .tls_handshake_timeout(self.handshake_timeout)
            .clients(
                self.clients
                    .iter()
                    .map(|(u, p)| Client {
                        username: u.clone(),
                        password: p.clone(),
                    })
                    .collect(),
            );
        if let Some((addr, mask)) = &self.reverse_proxy {
            b = b.reverse_proxy(
                ReverseProxySettings::builder()
                    .server_address(*addr)
                    .map_err(|e| e.to_string())?
                    .path_mask(mask.clone())
                    .build()
                    .map_err(|e| format!("{:?}", e))?,
            );
        }
        if let Some((addr, ext)) = &self.socks5 {
            b = b.forwarder_settings(trusttunnel::settings::ForwardProtocolSettings::Socks5(
                trusttunnel::settings::Socks5ForwarderSettings::builder()
                    .server_address(*addr)
                    .map_err(|e| e.to_string())?
                    .extended_auth(*ext)
                    .build()
                    .map_err(|e| format!("{:?}", e))?,
            ));
        }
        if self.icmp {
            b = b.icmp(
                IcmpSettings::builder()
                    .interface_name("lo")
                    .request_timeout(self.icmp_timeout)
                    .build()
                    .map_err(|e| format!("{:?}", e))?,
            );
        }
        if let Some(addr) = self.metrics {
            b = b.metrics(
                MetricsSettings::builder()
                    .listen_address(addr)
                    .map_err(|e| e.to_string())?
                    .build()
                    .map_err(|e| format!("{:?}", e))?,
            );
        }
        if let Some(rules) = &self.rules {
            b = b.rules_engine(trusttunnel::rules::RulesEngine::from_config(
                trusttunnel::rules::RulesConfig { rule: rules.clone() },
            ));
        }
        b.build().map_err(|e| format!("{:?}", e))
    }

    pub fn hosts(&self) -> Result<TlsHostsSettings, String> {
        TlsHostsSettings::builder()
            .main_hosts(
                self.main_hosts
                    .iter()
                    .map(|(n, c, a)| {
                        let a: Vec<&str> = a.iter().map(String::as_str).collect();
                        host(n, *c, &a)
                    })
                    .collect(),
            )
            .ping_hosts(self.ping_hosts.iter().map(|(n, c)| host(n, *c, &[])).collect())
            .speedtest_hosts(self.speed_hosts.iter().map(|(n, c)| host(n, *c, &[])).collect())
            .reverse_proxy_hosts(self.rp_hosts.iter().map(|(n, c)| host(n, *c, &[])).collect())
            .build()
            .map_err(|e| format!("{:?}", e))
    }

    pub fn authenticator(&self) -> Option<Arc<dyn Authenticator>> {
        let clients: Vec<Client> = self
            .clients
            .iter()
            .map(|(u, p)| Client {
                username: u.clone(),
                password: p.clone(),
            })
            .collect();
        match &self.auth {
            AuthKind::None => None,
            AuthKind::Registry => Some(Arc::new(RegistryBasedAuthenticator::new(&clients))),
            AuthKind::WithSni(label) => Some(Arc::new(HarnessAuthenticator {
                inner: RegistryBasedAuthenticator::new(&clients),
                accepted_sni: label.clone(),
            })),
        }
    }

    pub fn build(&self) -> Result<World, String> {
        let shutdown = Shutdown::new();
        let core = Core::new(
            self.settings()?,
            self.authenticator(),
            self.hosts()?,
            shutdown.clone(),
        )
        .map_err(|e| format!("{:?}", e))?;
        Ok(World {
            core: Arc::new(core),
            shutdown,
        })
    }
}

impl World {
    /// Serve one in-memory connection; returns the client end and the server task handle.
    pub fn serve(
        &self,
        proto: Proto,
        channel: ChannelView,
        sni: &str,
        sni_creds: Option<String>,
        peer: SocketAddr,
        buf: usize,
    ) -> (DuplexStream, tokio::task::JoinHandle<Result<(), String>>) {
        let (client, server) = tokio::io::duplex(buf);
        let core = self.core.clone();
        let sni = sni.to_string();
        let h = tokio::spawn(async move {
            core.verif_serve_connection(server, peer, proto, channel, sni, sni_creds)
                .await
        });
        (client, h)
    }

    /// Like [`World::serve`], but the endpoint's side of the transport records how it was ended:
    /// shut down in an orderly way (what a TLS stream turns into close_notify + FIN) or just
    /// dropped; and the client can make the endpoint's next read fail (a reset connection).
    pub fn serve_recorded(
        &self,
        proto: Proto,
        channel: ChannelView,
        sni: &str,
        peer: SocketAddr,
        buf: usize,
    ) -> (DuplexStream, TransportRecord, tokio::task::JoinHandle<Result<(), String>>) {
        let (client, server) = tokio::io::duplex(buf);
        let rec = TransportRecord::default();
        let io = RecordedIo { inner: server, rec: rec.clone() };
        let core = self.core.clone();
        let sni = sni.to_string();
        let h = tokio::spawn(async move { core.verif_serve_connection(io, peer, proto, channel, sni, None).await });
        (client, rec, h)
    }
}

#[derive(Clone, Default)]
pub struct TransportRecord {
    pub shut_down: Arc<AtomicBool>,
    pub dropped: Arc<AtomicBool>,
    /// the endpoint's reads fail with ECONNRESET from now on (write a byte to wake a pending read)
    pub reset_reads: Arc<AtomicBool>,
    /// reads that returned end-of-stream; the 1000th fails instead, so that a loop that keeps
    /// reading a finished stream without ever yielding comes to an end
    pub eof_reads: Arc<std::sync::atomic::AtomicUsize>,
}

pub struct RecordedIo {
    inner: DuplexStream,
    rec: TransportRecord,
}

impl Drop for RecordedIo {
    fn drop(&mut self) {
        self.rec.dropped.store(true, Ordering::SeqCst);
    }
}

impl tokio::io::AsyncRead for RecordedIo {
    fn poll_read(mut self: std::pin::Pin<&mut Self>, cx: &mut std::task::Context<'_>, buf: &mut tokio::io::ReadBuf<'_>) -> std::task::Poll<io::Result<()>> {
        if self.rec.reset_reads.load(Ordering::SeqCst) {
            return std::task::Poll::Ready(Err(io::Error::from(io::ErrorKind::ConnectionReset)));
        }
        let before = buf.filled().len();
        let r = std::pin::Pin::new(&mut self.inner).poll_read(cx, buf);
        if self.rec.reset_reads.load(Ordering::SeqCst) {
            return std::task::Poll::Ready(Err(io::Error::from(io::ErrorKind::ConnectionReset)));
        }
        if matches!(r, std::task::Poll::Ready(Ok(()))) && buf.filled().len() == before && buf.remaining() > 0 {
            let n = self.rec.eof_reads.fetch_add(1, Ordering::SeqCst) + 1;
            if n >= 1000 {
                return std::task::Poll::Ready(Err(io::Error::new(io::ErrorKind::Other, "harness: the finished stream was read 1000 times")));
            }
        }
        r
    }
}

impl tokio::io::AsyncWrite for RecordedIo {
    fn poll_write(mut self: std::pin::Pin<&mut Self>, cx: &mut std::task::Context<'_>, buf: &[u8]) -> std::task::Poll<io::Result<usize>> {
        std::pin::Pin::new(&mut self.inner).poll_write(cx, buf)
    }
    fn poll_flush(mut self: std::pin::Pin<&mut Self>, cx: &mut std::task::Context<'_>) -> std::task::Poll<io::Result<()>> {
        std::pin::Pin::new(&mut self.inner).poll_flush(cx)
    }
    fn poll_shutdown(mut self: std::pin::Pin<&mut Self>, cx: &mut std::task::Context<'_>) -> std::task::Poll<io::Result<()>> {
        let r = std::pin::Pin::new(&mut self.inner).poll_shutdown(cx);
        if matches!(r, std::task::Poll::Ready(Ok(()))) {
            self.rec.shut_down.store(true, Ordering::SeqCst);
        }
        r
    }
}

// ---------------------------------------------------------------------------------------------
// in-memory peers for the scripted forwarder

pub enum PeerMsg {
    Data(Bytes),
    Eof,
    Err(io::ErrorKind),
}

#[derive(Clone)]
pub struct PeerHandle {
    pub received: Arc<Mutex<Vec<u8>>>,
    pub eof_seen: Arc<AtomicBool>,
    pub sink_dropped: Arc<AtomicBool>,
    pub source_dropped: Arc<AtomicBool>,
    pub to_client: mpsc::UnboundedSender<PeerMsg>,
    /// while false the destination accepts no byte from the tunnel (back-pressure)
    pub accept: Arc<AtomicBool>,
    pub accept_changed: Arc<tokio::sync::Notify>,
    /// when set, the destination fails the next write with this error (EPIPE and the like)
    pub fail_write: Arc<Mutex<Option<io::ErrorKind>>>,
}

impl PeerHandle {
    pub fn set_accepting(&self, on: bool) {
        self.accept.store(on, Ordering::SeqCst);
        self.accept_changed.notify_waiters();
    }
}

pub struct MemSource {
    rx: mpsc::UnboundedReceiver<PeerMsg>,
    done: bool,
    dropped: Arc<AtomicBool>,
}

pub struct MemSink {
    received: Arc<Mutex<Vec<u8>>>,
    eof_seen: Arc<AtomicBool>,
    dropped: Arc<AtomicBool>,
    echo: Option<mpsc::UnboundedSender<PeerMsg>>,
    accept: Arc<AtomicBool>,
    accept_changed: Arc<tokio::sync::Notify>,
    fail_write: Arc<Mutex<Option<io::ErrorKind>>>,
}

impl Drop for MemSource {
    fn drop(&mut self) {
        self.dropped.store(true, Ordering::SeqCst);
    }
}

impl Drop for MemSink {
    fn drop(&mut self) {
        self.dropped.store(true, Ordering::SeqCst);
    }
}

#[async_trait]
impl ByteSource for MemSource {
    async fn read(&mut self) -> io::Result<Option<Bytes>> {
        if self.done {
            return Ok(None);
        }
        match self.rx.recv().await {
            Some(PeerMsg::Data(b)) => Ok(Some(b)),
            Some(PeerMsg::Eof) => {
                self.done = true;
                Ok(None)
            }
            Some(PeerMsg::Err(k)) => Err(io::Error::from(k)),
            None => futures::future::pending().await,
        }
    }
    fn consume(&mut self, _: usize) -> io::Result<()> {
        Ok(())
    }
}

#[async_trait]
impl ByteSink for MemSink {
    fn write(&mut self, data: Bytes) -> io::Result<Bytes> {
        if let Some(k) = *self.fail_write.lock().unwrap() {
            return Err(io::Error::from(k));
        }
        if !self.accept.load(Ordering::SeqCst) {
            return Ok(data);
        }
        self.received.lock().unwrap().extend_from_slice(&data);
        if let Some(e) = &self.echo {
            let _ = e.send(PeerMsg::Data(data));
        }
        Ok(Bytes::new())
    }
    fn eof(&mut self) -> io::Result<()> {
        self.eof_seen.store(true, Ordering::SeqCst);
        if let Some(e) = &self.echo {
            let _ = e.send(PeerMsg::Eof);
        }
        Ok(())
    }
    async fn wait_writable(&mut self) -> io::Result<()> {
        loop {
            let changed = self.accept_changed.notified();
            if self.accept.load(Ordering::SeqCst) {
                return Ok(());
            }
            changed.await;
        }
    }
    async fn flush(&mut self) -> io::Result<()> {
        Ok(())
    }
}

/// A destination that lives in memory. `echo`: whatever the client sends comes back.
pub fn mem_peer(echo: bool) -> (PipeHalves, PeerHandle) {
    let (tx, rx) = mpsc::unbounded_channel();
    let h = PeerHandle {
        received: Default::default(),
        eof_seen: Default::default(),
        sink_dropped: Default::default(),
        source_dropped: Default::default(),
        to_client: tx.clone(),
        accept: Arc::new(AtomicBool::new(true)),
        accept_changed: Default::default(),
        fail_write: Default::default(),
    };
    let src = MemSource {
        rx,
        done: false,
        dropped: h.source_dropped.clone(),
    };
    let sink = MemSink {
        received: h.received.clone(),
        eof_seen: h.eof_seen.clone(),
        dropped: h.sink_dropped.clone(),
        echo: echo.then_some(tx),
        accept: h.accept.clone(),
        accept_changed: h.accept_changed.clone(),
        fail_write: h.fail_write.clone(),
    };
    ((Box::new(src), Box::new(sink)), h)
}

#[derive(Clone, Debug, PartialEq, Eq, serde::Serialize, serde::Deserialize)]
pub enum Outcome {
    /// connected; the destination echoes
    Echo,
    /// connected; the destination is silent
    Silent,
    Refused,
    HostUnreachable,
    Timeout,
    /// the attempt never completes
    Never,
    DnsLoopback,
    DnsNonroutable,
    ResolveFail,
    TooManyFiles,
    Other,
    /// completes after this many milliseconds with success (echo)
    DelayedEcho(u64),
}

#[derive(Debug, Clone)]
pub enum Event {
    TcpConnect(TcpMetaView),
    UdpMux(UdpMuxMetaView),
    IcmpMux,
    DatagramAuth(UdpMuxMetaView),
}

type Decide = dyn Fn(&TcpMetaView) -> Outcome + Send + Sync;

pub struct Scripted {
    pub events: Mutex<Vec<Event>>,
    pub peers: Mutex<Vec<(TcpMetaView, PeerHandle)>>,
    pub decide: Box<Decide>,
    pub udp_plan: fn() -> MuxPlan,
    pub icmp_plan: fn() -> MuxPlan,
    /// outcome of the forwarder's authentication step for datagram multiplexers
    pub auth_plan: fn() -> Result<(), ConnErrView>,
    pub connect_dropped: Arc<AtomicBool>,
}

impl Scripted {
    pub fn new(decide: impl Fn(&TcpMetaView) -> Outcome + Send + Sync + 'static) -> Arc<Self> {
        Arc::new(Self {
            events: Default::default(),
            peers: Default::default(),
            decide: Box::new(decide),
            udp_plan: || MuxPlan::Dummy,
            icmp_plan: || MuxPlan::Dummy,
            auth_plan: || Ok(()),
            connect_dropped: Default::default(),
        })
    }

    pub fn install(self: &Arc<Self>, world: &World) -> ConnectorGuard {
        world.core.verif_install_connector(self.clone())
    }

    pub fn events(&self) -> Vec<Event> {
        self.events.lock().unwrap().clone()
    }

    pub fn egress_count(&self) -> usize {
        self.events.lock().unwrap().len()
    }
}

struct DropFlag(Arc<AtomicBool>);
impl Drop for DropFlag {
    fn drop(&mut self) {
        self.0.store(true, Ordering::SeqCst);
    }
}

#[async_trait]
impl Connector for Scripted {
    async fn tcp_connect(&self, meta: TcpMetaView) -> Result<PipeHalves, ConnErrView> {
        self.events.lock().unwrap().push(Event::TcpConnect(meta.clone()));
        let mut outcome = (self.decide)(&meta);
        if let Outcome::DelayedEcho(ms) = outcome {
            let flag = DropFlag(self.connect_dropped.clone());
            tokio::time::sleep(Duration::from_millis(ms)).await;
            std::mem::forget(flag);
            outcome = Outcome::Echo;
        }
        match outcome {
            Outcome::Echo | Outcome::Silent => {
                let (halves, h) = mem_peer(outcome == Outcome::Echo);
                self.peers.lock().unwrap().push((meta, h));
                Ok(halves)
            }
            Outcome::Refused => Err(ConnErrView::Io(io::Error::from(io::ErrorKind::ConnectionRefused))),
            Outcome::HostUnreachable => Err(ConnErrView::HostUnreachable),
            Outcome::Timeout => Err(ConnErrView::Timeout),
            Outcome::Never => {
                let _flag = DropFlag(self.connect_dropped.clone());
                futures::future::pending().await
            }
            Outcome::DnsLoopback => Err(ConnErrView::DnsLoopback),
            Outcome::DnsNonroutable => Err(ConnErrView::DnsNonroutable),
            Outcome::ResolveFail => Err(ConnErrView::Io(io::Error::new(
                io::ErrorKind::Other,
                "failed to lookup address information",
            ))),
            Outcome::TooManyFiles => Err(ConnErrView::Io(io::Error::from_raw_os_error(libc::EMFILE))),
            Outcome::Other => Err(ConnErrView::Other("scripted failure".into())),
            Outcome::DelayedEcho(_) => unreachable!(),
        }
    }

    async fn datagram_auth(&self, meta: UdpMuxMetaView) -> Result<(), ConnErrView> {
        self.events.lock().unwrap().push(Event::DatagramAuth(meta));
        (self.auth_plan)()
    }

    fn udp_mux(&self, meta: UdpMuxMetaView) -> MuxPlan {
        self.events.lock().unwrap().push(Event::UdpMux(meta));
        (self.udp_plan)()
    }

    fn icmp_mux(&self) -> MuxPlan {
        self.events.lock().unwrap().push(Event::IcmpMux);
        (self.icmp_plan)()
    }
}

// ---------------------------------------------------------------------------------------------
// HTTP/1.1 client side helpers

#[derive(Debug, Clone, PartialEq, Eq)]
pub struct H1Response {
    pub status: u16,
    pub version_minor: u8,
    pub headers: Vec<(String, Vec<u8>)>,
    /// bytes following the head
    pub rest: Vec<u8>,
    /// number of heads parsed in front of the final one (1xx)
    pub interim: Vec<u16>,
}

impl H1Response {
    pub fn header(&self, name: &str) -> Option<String> {
        self.headers
            .iter()
            .find(|(n, _)| n.eq_ignore_ascii_case(name))
            .map(|(_, v)| String::from_utf8_lossy(v).into_owned())
    }
}

/// Parse response heads from the front of `buf`. Returns None while the final head is incomplete.
pub fn parse_h1_response(buf: &[u8]) -> Result<Option<H1Response>, String> {
    let mut off = 0;
    let mut interim = vec![];
    loop {
        let mut headers = [httparse::EMPTY_HEADER; 256];
        let mut r = httparse::Response::new(&mut headers);
        match r.parse(&buf[off..]) {
            Ok(httparse::Status::Partial) => return Ok(None),
            Err(e) => return Err(format!("malformed response head: {}", e)),
            Ok(httparse::Status::Complete(n)) => {
                let status = r.code.unwrap_or(0);
                if (100..200).contains(&status) && status != 101 {
                    interim.push(status);
                    off += n;
                    continue;
                }
                return Ok(Some(H1Response {
                    status,
                    version_minor: r.version.unwrap_or(9),
                    headers: r
                        .headers
                        .iter()
                        .map(|h| (h.name.to_string(), h.value.to_vec()))
                        .collect(),
                    rest: buf[off + n..].to_vec(),
                    interim,
                }));
            }
        }
    }
}

/// Read until the final response head is complete (or EOF / budget).
pub async fn read_h1_response(io: &mut DuplexStream, limit: Duration) -> Result<Option<H1Response>, String> {
    let mut buf = vec![];
    let deadline = tokio::time::Instant::now() + limit;
    loop {
        if let Some(r) = parse_h1_response(&buf)? {
            return Ok(Some(r));
        }
        let mut tmp = [0u8; 4096];
        match tokio::time::timeout_at(deadline, io.read(&mut tmp)).await {
            Err(_) => return Ok(None),
            Ok(Ok(0)) => {
                return if buf.is_empty() {
                    Ok(None)
                } else {
                    Err(format!("connection closed inside a response head: {:?}", String::from_utf8_lossy(&buf)))
                }
            }
            Ok(Ok(n)) => buf.extend_from_slice(&tmp[..n]),
            Ok(Err(e)) => return Err(format!("read error: {}", e)),
        }
    }
}

/// Read whatever arrives until EOF or the time budget (virtual or real) is over.
pub async fn read_to_end(io: &mut DuplexStream, limit: Duration) -> (Vec<u8>, bool) {
    let mut buf = vec![];
    let deadline = tokio::time::Instant::now() + limit;
    loop {
        let mut tmp = [0u8; 8192];
        match tokio::time::timeout_at(deadline, io.read(&mut tmp)).await {
            Err(_) => return (buf, false),
            Ok(Ok(0)) => return (buf, true),
            Ok(Ok(n)) => buf.extend_from_slice(&tmp[..n]),
            Ok(Err(_)) => return (buf, true),
        }
    }
}

pub async fn write_all(io: &mut DuplexStream, data: &[u8]) -> io::Result<()> {
    io.write_all(data).await
}

pub fn peer_v4() -> SocketAddr {
    "198.51.100.7:40000".parse().unwrap()
}

pub fn ip(s: &str) -> IpAddr {
    s.parse().unwrap()
}
