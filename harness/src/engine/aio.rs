//! Async helpers: runtimes with a paused clock, scripted transports.

use std::future::Future;

/// Run a future on a fresh current-thread runtime with the tokio clock paused.
pub fn block_on_paused<F: Future>(f: F) -> F::Output {
    tokio::runtime::Builder::new_current_thread()
        .enable_all()
        .start_paused(true)
        .build()
        .unwrap()
        .block_on(f)
}

/// Run a future on a fresh current-thread runtime with the real clock.
pub fn block_on_real<F: Future>(f: F) -> F::Output {
    tokio::runtime::Builder::new_current_thread()
        .enable_all()
        .build()
        .unwrap()
        .block_on(f)
}
