//! Async helpers: runtimes with a paused clock, scripted transports.

use std::future::Future;

/// Run a future on a fresh current-thread runtime with the tokio clock paused.
pub fn block_on_paused<F: Future>(f: F) -> F::Output {
    tokio::runtime::Builder::new_current_thread()
        .enable_all()
        .start_paused(true)
        .build()
        .unwrap()
        .block_on(f)
}

/// Run a future on a fresh current-thread runtime with the real clock.
pub fn block_on_real<F: Future>(f: F) -> F::Output {
    tokio::runtime::Builder::new_current_thread()
        .enable_all()
        .build()
        .unwrap()
        .block_on(f)
}

/// Under the paused clock tokio fires a timer at exactly its (millisecond-rounded) deadline, so
/// `Instant::now()` equals the deadline - something a real, always slightly late timer never
/// shows (and strict comparisons such as `last_activity < now - T` then never become true).
/// Giving the clock a persistent sub-millisecond offset makes every timer fire 0.5-1.5 ms late,
/// as in real time. Call once at the start of a paused-clock case.
pub async fn skew_clock() {
    tokio::time::advance(std::time::Duration::from_micros(500)).await;
}
