//! Async helpers: runtimes with a paused clock, scripted transports.

use std::future::Future;

/// Run a future on a fresh current-thread runtime with the tokio clock paused.
pub fn block_on_paused<F: Future>(f: F) -> F::Output {
    tokio::runtime::Builder::new_current_thread()
        .enable_all()
        .start_paused(true)
        .build()
        .unwrap()
        .block_on(f)
}

thread_local! {
    static REAL_CLOCK_USED: std::cell::Cell<bool> = const { std::cell::Cell::new(false) };
}

/// Did the current thread run a case on the real clock since the last call? (resets the flag)
/// The engine re-executes a failing real-clock case before it believes the failure: wall-clock
/// waits are the one ingredient of such a case that the scheduler of a loaded machine can change.
pub fn take_real_clock_used() -> bool {
    REAL_CLOCK_USED.with(|c| c.replace(false))
}

/// Run a future on a fresh current-thread runtime with the real clock.
pub fn block_on_real<F: Future>(f: F) -> F::Output {
    REAL_CLOCK_USED.with(|c| c.set(true));
    tokio::runtime::Builder::new_current_thread()
        .enable_all()
        .build()
        .unwrap()
        .block_on(f)
}

/// Under the paused clock tokio fires a timer at exactly its (millisecond-rounded) deadline, so
/// `Instant::now()` equals the deadline - something a real, always slightly late timer never
/// shows (and strict comparisons such as `last_activity < now - T` then never become true).
/// Giving the clock a persistent sub-millisecond offset makes every timer fire 0.5-1.5 ms late,
/// as in real time. Call once at the start of a paused-clock case.
pub async fn skew_clock() {
    tokio::time::advance(std::time::Duration::from_micros(500)).await;
}
