//! A minimal HTTP/3 client (quiche) against the real QUIC listener; the client random of its
//! ClientHello is learnt from the TLS key log.

use quiche::h3;
use quiche::h3::NameValue;
use std::io::ErrorKind;
use std::net::SocketAddr;
use std::sync::{Arc, Mutex};
use std::time::Duration;
use tokio::net::UdpSocket;
use tokio::time::Instant;

const MAX_UDP_PAYLOAD: usize = 1350;

#[derive(Debug, Default, Clone)]
pub struct H3Outcome {
    /// datagrams of the first flight (Initial packets carrying the ClientHello)
    pub hello_packets: usize,
    pub established: bool,
    /// from the key log of the client's TLS stack
    pub client_random: Option<Vec<u8>>,
    pub status: Option<u16>,
    pub negotiated_alpn: Vec<u8>,
    /// the peer closed the connection (CONNECTION_CLOSE) or it timed out before a response
    pub closed: bool,
    pub error: Option<String>,
}

#[derive(Clone, Default)]
struct KeyLog(Arc<Mutex<Vec<u8>>>);

impl std::io::Write for KeyLog {
    fn write(&mut self, buf: &[u8]) -> std::io::Result<usize> {
        self.0.lock().unwrap().extend_from_slice(buf);
        Ok(buf.len())
    }
    fn flush(&mut self) -> std::io::Result<()> {
        Ok(())
    }
}

fn random_of(keylog: &[u8]) -> Option<Vec<u8>> {
    let text = String::from_utf8_lossy(keylog);
    for line in text.lines() {
        let mut it = line.split_whitespace();
        let (Some(label), Some(random)) = (it.next(), it.next()) else { continue };
        if label.ends_with("_SECRET") || label == "CLIENT_RANDOM" {
            if let Ok(r) = hex::decode(random) {
                if r.len() == 32 {
                    return Some(r);
                }
            }
        }
    }
    None
}

async fn flush(socket: &UdpSocket, conn: &mut quiche::Connection) -> usize {
    let mut sent = 0;
    let mut buffer = [0; MAX_UDP_PAYLOAD];
    loop {
        match conn.send(&mut buffer) {
            Ok((n, info)) => {
                let _ = socket.send_to(&buffer[..n], info.to).await;
                sent += 1;
            }
            Err(_) => break,
        }
    }
    sent
}

fn read_out(socket: &UdpSocket, conn: &mut quiche::Connection) {
    let mut buffer = [0; 65535];
    loop {
        match socket.try_recv_from(&mut buffer) {
            Ok((n, from)) => {
                let info = quiche::RecvInfo { from, to: socket.local_addr().unwrap() };
                let _ = conn.recv(&mut buffer[..n], info);
            }
            Err(e) if e.kind() == ErrorKind::WouldBlock => break,
            Err(_) => break,
        }
    }
}

async fn wait_io(socket: &UdpSocket, conn: &quiche::Connection) {
    let t = conn.timeout().unwrap_or(Duration::from_millis(50)).min(Duration::from_millis(50));
    let _ = tokio::time::timeout(t, socket.readable()).await;
}

/// One request over a fresh QUIC connection. `alpn` is the offered list (first entries are real
/// protocols, padding entries make the ClientHello span several Initial packets).
pub async fn h3_request(peer: SocketAddr, sni: &str, alpn: &[Vec<u8>], headers: &[(Vec<u8>, Vec<u8>)], limit: Duration) -> H3Outcome {
    let mut out = H3Outcome::default();
    let bind = if peer.is_ipv4() { "127.0.0.1:0" } else { "[::1]:0" };
    let socket = match UdpSocket::bind(bind).await {
        Ok(s) => s,
        Err(e) => {
            out.error = Some(format!("bind: {}", e));
            return out;
        }
    };
    let mut scid = [0u8; quiche::MAX_CONN_ID_LEN];
    let _ = ring::rand::SecureRandom::fill(&ring::rand::SystemRandom::new(), &mut scid);
    let mut config = quiche::Config::new(quiche::PROTOCOL_VERSION).unwrap();
    config.verify_peer(false);
    config.log_keys();
    config.set_max_idle_timeout(5000);
    config.set_max_recv_udp_payload_size(MAX_UDP_PAYLOAD);
    config.set_max_send_udp_payload_size(MAX_UDP_PAYLOAD);
    config.set_initial_max_data(10_000_000);
    config.set_initial_max_stream_data_bidi_local(1_000_000);
    config.set_initial_max_stream_data_bidi_remote(1_000_000);
    config.set_initial_max_stream_data_uni(1_000_000);
    config.set_initial_max_streams_bidi(100);
    config.set_initial_max_streams_uni(100);
    let protos: Vec<&[u8]> = alpn.iter().map(Vec::as_slice).collect();
    if let Err(e) = config.set_application_protos(&protos) {
        out.error = Some(format!("alpn: {}", e));
        return out;
    }
    let mut conn = match quiche::connect(Some(sni), &quiche::ConnectionId::from_ref(&scid), socket.local_addr().unwrap(), peer, &mut config) {
        Ok(c) => c,
        Err(e) => {
            out.error = Some(format!("connect: {}", e));
            return out;
        }
    };
    let keylog = KeyLog::default();
    conn.set_keylog(Box::new(keylog.clone()));
    out.hello_packets = flush(&socket, &mut conn).await;
    let deadline = Instant::now() + limit;
    while !conn.is_established() {
        if conn.is_closed() || Instant::now() > deadline {
            out.closed = true;
            out.client_random = random_of(&keylog.0.lock().unwrap());
            return out;
        }
        wait_io(&socket, &conn).await;
        read_out(&socket, &mut conn);
        conn.on_timeout();
        flush(&socket, &mut conn).await;
    }
    out.established = true;
    out.negotiated_alpn = conn.application_proto().to_vec();
    out.client_random = random_of(&keylog.0.lock().unwrap());
    let mut h3_conn = match h3::Connection::with_transport(&mut conn, &h3::Config::new().unwrap()) {
        Ok(c) => c,
        Err(e) => {
            out.error = Some(format!("h3: {}", e));
            return out;
        }
    };
    let request: Vec<h3::Header> = headers.iter().map(|(n, v)| h3::Header::new(n, v)).collect();
    if let Err(e) = h3_conn.send_request(&mut conn, &request, false) {
        out.error = Some(format!("send_request: {}", e));
        return out;
    }
    flush(&socket, &mut conn).await;
    while Instant::now() < deadline {
        if conn.is_closed() {
            out.closed = true;
            break;
        }
        read_out(&socket, &mut conn);
        let mut done = false;
        loop {
            match h3_conn.poll(&mut conn) {
                Ok((_, h3::Event::Headers { list, .. })) => {
                    out.status = list
                        .iter()
                        .find(|h| h.name() == b":status")
                        .and_then(|h| std::str::from_utf8(h.value()).ok().and_then(|s| s.parse().ok()));
                    done = true;
                    break;
                }
                Ok(_) => continue,
                Err(h3::Error::Done) => break,
                Err(_) => {
                    out.closed = true;
                    done = true;
                    break;
                }
            }
        }
        if done {
            break;
        }
        conn.on_timeout();
        flush(&socket, &mut conn).await;
        wait_io(&socket, &conn).await;
    }
    if out.status.is_none() && !out.closed {
        out.closed = conn.is_closed() || conn.is_draining();
    }
    let _ = conn.close(true, 0, b"");
    flush(&socket, &mut conn).await;
    out
}

#[derive(Debug, Default, Clone)]
pub struct H3Response {
    pub status: Option<u16>,
    pub headers: Vec<(String, Vec<u8>)>,
    pub body: Vec<u8>,
    /// the stream was finished or reset by the peer
    pub ended: bool,
    /// statuses of interim (1xx) responses seen before the final one
    pub interim: Vec<u16>,
    pub reset: bool,
}

#[derive(Debug, Clone)]
pub struct H3Request {
    pub headers: Vec<(Vec<u8>, Vec<u8>)>,
    /// bytes sent on the request stream after the head (a tunnel's payload); the stream is left open
    pub body: Vec<u8>,
    /// finish the request stream with the head (plain requests)
    pub fin: bool,
    /// finish the request stream after `body`
    pub fin_after_body: bool,
}

/// Several requests multiplexed on one QUIC connection; responses in request order.
pub async fn h3_session(peer: SocketAddr, sni: &str, requests: &[H3Request], limit: Duration) -> (H3Outcome, Vec<H3Response>) {
    let mut out = H3Outcome::default();
    let mut resps: Vec<H3Response> = requests.iter().map(|_| H3Response::default()).collect();
    let bind = if peer.is_ipv4() { "127.0.0.1:0" } else { "[::1]:0" };
    let socket = match UdpSocket::bind(bind).await {
        Ok(s) => s,
        Err(e) => {
            out.error = Some(format!("bind: {}", e));
            return (out, resps);
        }
    };
    let mut scid = [0u8; quiche::MAX_CONN_ID_LEN];
    let _ = ring::rand::SecureRandom::fill(&ring::rand::SystemRandom::new(), &mut scid);
    let mut config = quiche::Config::new(quiche::PROTOCOL_VERSION).unwrap();
    config.verify_peer(false);
    config.set_max_idle_timeout(5000);
    config.set_max_recv_udp_payload_size(MAX_UDP_PAYLOAD);
    config.set_max_send_udp_payload_size(MAX_UDP_PAYLOAD);
    config.set_initial_max_data(10_000_000);
    config.set_initial_max_stream_data_bidi_local(1_000_000);
    config.set_initial_max_stream_data_bidi_remote(1_000_000);
    config.set_initial_max_stream_data_uni(1_000_000);
    config.set_initial_max_streams_bidi(100);
    config.set_initial_max_streams_uni(100);
    let _ = config.set_application_protos(&[b"h3"]);
    let mut conn = match quiche::connect(Some(sni), &quiche::ConnectionId::from_ref(&scid), socket.local_addr().unwrap(), peer, &mut config) {
        Ok(c) => c,
        Err(e) => {
            out.error = Some(format!("connect: {}", e));
            return (out, resps);
        }
    };
    out.hello_packets = flush(&socket, &mut conn).await;
    let deadline = Instant::now() + limit;
    while !conn.is_established() {
        if conn.is_closed() || Instant::now() > deadline {
            out.closed = true;
            return (out, resps);
        }
        wait_io(&socket, &conn).await;
        read_out(&socket, &mut conn);
        conn.on_timeout();
        flush(&socket, &mut conn).await;
    }
    out.established = true;
    let mut h3_conn = match h3::Connection::with_transport(&mut conn, &h3::Config::new().unwrap()) {
        Ok(c) => c,
        Err(e) => {
            out.error = Some(format!("h3: {}", e));
            return (out, resps);
        }
    };
    let mut ids: Vec<Option<u64>> = vec![];
    // how much of each request body has been written (flow control may take several rounds)
    let mut body_off: Vec<usize> = vec![];
    let mut body_done: Vec<bool> = vec![];
    for r in requests {
        let hdrs: Vec<h3::Header> = r.headers.iter().map(|(n, v)| h3::Header::new(n, v)).collect();
        match h3_conn.send_request(&mut conn, &hdrs, r.fin) {
            Ok(id) => {
                ids.push(Some(id));
                body_off.push(0);
                body_done.push(r.body.is_empty() && !r.fin_after_body);
            }
            Err(e) => {
                out.error.get_or_insert(format!("send_request: {}", e));
                ids.push(None);
                body_off.push(0);
                body_done.push(true);
            }
        }
        flush(&socket, &mut conn).await;
    }
    let want_body: Vec<usize> = requests.iter().map(|r| r.body.len()).collect();
    let mut buf = vec![0u8; 65535];
    while Instant::now() < deadline {
        if conn.is_closed() {
            out.closed = true;
            break;
        }
        // request bodies, as far as flow control lets them go
        for (k, r) in requests.iter().enumerate() {
            let Some(id) = ids[k] else { continue };
            if body_done[k] {
                continue;
            }
            loop {
                let rest = &r.body[body_off[k]..];
                match h3_conn.send_body(&mut conn, id, rest, r.fin_after_body) {
                    Ok(n) => {
                        body_off[k] += n;
                        if body_off[k] >= r.body.len() {
                            body_done[k] = true;
                            break;
                        }
                        if n == 0 {
                            break;
                        }
                    }
                    Err(h3::Error::Done) => break,
                    Err(_) => {
                        body_done[k] = true; // the stream is gone (stopped / reset by the peer)
                        break;
                    }
                }
            }
        }
        flush(&socket, &mut conn).await;
        read_out(&socket, &mut conn);
        loop {
            match h3_conn.poll(&mut conn) {
                Ok((sid, h3::Event::Headers { list, .. })) => {
                    if let Some(k) = ids.iter().position(|x| *x == Some(sid)) {
                        let status: Option<u16> = list.iter().find(|h| h.name() == b":status").and_then(|h| std::str::from_utf8(h.value()).ok().and_then(|s| s.parse().ok()));
                        // interim responses do not end the wait
                        match status {
                            Some(s) if (100..200).contains(&s) => resps[k].interim.push(s),
                            _ => {
                                resps[k].status = status;
                                resps[k].headers = list.iter().map(|h| (String::from_utf8_lossy(h.name()).into_owned(), h.value().to_vec())).collect();
                            }
                        }
                    }
                }
                Ok((sid, h3::Event::Data)) => {
                    if let Some(k) = ids.iter().position(|x| *x == Some(sid)) {
                        while let Ok(n) = h3_conn.recv_body(&mut conn, sid, &mut buf) {
                            if n == 0 {
                                break;
                            }
                            resps[k].body.extend_from_slice(&buf[..n]);
                        }
                    }
                }
                Ok((sid, h3::Event::Finished)) => {
                    if let Some(k) = ids.iter().position(|x| *x == Some(sid)) {
                        resps[k].ended = true;
                    }
                }
                Ok((sid, h3::Event::Reset(_))) => {
                    if let Some(k) = ids.iter().position(|x| *x == Some(sid)) {
                        resps[k].ended = true;
                        resps[k].reset = true;
                    }
                }
                Ok(_) => {}
                Err(h3::Error::Done) => break,
                Err(_) => {
                    out.closed = true;
                    break;
                }
            }
        }
        let all = resps.iter().zip(&ids).zip(&want_body).zip(requests).all(|(((r, id), want), q)| {
            if id.is_none() {
                return true;
            }
            if q.fin || q.fin_after_body {
                r.status.is_some() && r.ended
            } else {
                r.status.is_some() && (r.status != Some(200) || r.body.len() >= *want || r.ended)
            }
        });
        if all || out.closed {
            break;
        }
        conn.on_timeout();
        flush(&socket, &mut conn).await;
        wait_io(&socket, &conn).await;
    }
    let _ = conn.close(true, 0, b"");
    flush(&socket, &mut conn).await;
    (out, resps)
}

/// What an HTTP/3 tunnel client does after its CONNECT was answered 200
#[derive(Debug, Clone)]
pub struct TunnelScript {
    /// pieces written into the tunnel, one per round of the event loop
    pub up: Vec<Vec<u8>>,
    /// finish the request stream after the last piece
    pub fin: bool,
}

#[derive(Debug, Default, Clone)]
pub struct TunnelSeen {
    pub status: Option<u16>,
    pub down: Vec<u8>,
    /// the endpoint finished the response stream
    pub ended: bool,
    pub reset: bool,
    pub up_sent: usize,
    pub fin_sent: bool,
    pub error: Option<String>,
    /// CONNECTION_CLOSE received from the endpoint: (application close, error code)
    pub peer_close: Option<(bool, u64)>,
}

/// CONNECT over a fresh QUIC connection, then the script; keeps the connection alive (and keeps
/// reading) until `stop` fires or `limit` passes.
pub async fn h3_tunnel(
    peer: SocketAddr,
    sni: &str,
    headers: Vec<(Vec<u8>, Vec<u8>)>,
    script: TunnelScript,
    mut stop: tokio::sync::oneshot::Receiver<()>,
    limit: Duration,
) -> TunnelSeen {
    let mut seen = TunnelSeen::default();
    let socket = match UdpSocket::bind("127.0.0.1:0").await {
        Ok(s) => s,
        Err(e) => {
            seen.error = Some(format!("bind: {}", e));
            return seen;
        }
    };
    let mut scid = [0u8; quiche::MAX_CONN_ID_LEN];
    let _ = ring::rand::SecureRandom::fill(&ring::rand::SystemRandom::new(), &mut scid);
    let mut config = quiche::Config::new(quiche::PROTOCOL_VERSION).unwrap();
    config.verify_peer(false);
    config.set_max_idle_timeout(8000);
    config.set_max_recv_udp_payload_size(MAX_UDP_PAYLOAD);
    config.set_max_send_udp_payload_size(MAX_UDP_PAYLOAD);
    config.set_initial_max_data(1_000_000);
    config.set_initial_max_stream_data_bidi_local(200_000);
    config.set_initial_max_stream_data_bidi_remote(200_000);
    config.set_initial_max_stream_data_uni(200_000);
    config.set_initial_max_streams_bidi(100);
    config.set_initial_max_streams_uni(100);
    let _ = config.set_application_protos(&[b"h3"]);
    let mut conn = match quiche::connect(Some(sni), &quiche::ConnectionId::from_ref(&scid), socket.local_addr().unwrap(), peer, &mut config) {
        Ok(c) => c,
        Err(e) => {
            seen.error = Some(format!("connect: {}", e));
            return seen;
        }
    };
    flush(&socket, &mut conn).await;
    let deadline = Instant::now() + limit;
    while !conn.is_established() {
        if conn.is_closed() || Instant::now() > deadline {
            seen.error = Some("QUIC handshake did not complete".into());
            return seen;
        }
        wait_io(&socket, &conn).await;
        read_out(&socket, &mut conn);
        conn.on_timeout();
        flush(&socket, &mut conn).await;
    }
    let mut h3_conn = match h3::Connection::with_transport(&mut conn, &h3::Config::new().unwrap()) {
        Ok(c) => c,
        Err(e) => {
            seen.error = Some(format!("h3: {}", e));
            return seen;
        }
    };
    let hdrs: Vec<h3::Header> = headers.iter().map(|(n, v)| h3::Header::new(n, v)).collect();
    let sid = match h3_conn.send_request(&mut conn, &hdrs, false) {
        Ok(id) => id,
        Err(e) => {
            seen.error = Some(format!("send_request: {}", e));
            return seen;
        }
    };
    flush(&socket, &mut conn).await;
    let mut pending: std::collections::VecDeque<Vec<u8>> = script.up.iter().cloned().collect();
    let mut off = 0usize;
    let mut buf = vec![0u8; 65535];
    loop {
        if stop.try_recv().is_ok() || Instant::now() > deadline || conn.is_closed() {
            break;
        }
        read_out(&socket, &mut conn);
        loop {
            match h3_conn.poll(&mut conn) {
                Ok((id, h3::Event::Headers { list, .. })) if id == sid => {
                    seen.status = list.iter().find(|h| h.name() == b":status").and_then(|h| std::str::from_utf8(h.value()).ok().and_then(|s| s.parse().ok()));
                }
                Ok((id, h3::Event::Data)) if id == sid => {
                    while let Ok(n) = h3_conn.recv_body(&mut conn, sid, &mut buf) {
                        if n == 0 {
                            break;
                        }
                        seen.down.extend_from_slice(&buf[..n]);
                    }
                }
                Ok((id, h3::Event::Finished)) if id == sid => seen.ended = true,
                Ok((id, h3::Event::Reset(_))) if id == sid => {
                    seen.ended = true;
                    seen.reset = true;
                }
                Ok(_) => {}
                Err(h3::Error::Done) => break,
                Err(e) => {
                    seen.error.get_or_insert(format!("h3 poll: {}", e));
                    break;
                }
            }
        }
        // upload, once the tunnel is open
        if seen.status == Some(200) && !seen.fin_sent {
            while let Some(front) = pending.front() {
                match h3_conn.send_body(&mut conn, sid, &front[off..], false) {
                    Ok(n) => {
                        off += n;
                        seen.up_sent += n;
                        if off >= front.len() {
                            pending.pop_front();
                            off = 0;
                            break; // one piece per round
                        } else {
                            break; // blocked by flow control
                        }
                    }
                    Err(h3::Error::Done) => break,
                    Err(e) => {
                        seen.error.get_or_insert(format!("send_body: {}", e));
                        pending.clear();
                        break;
                    }
                }
            }
            if pending.is_empty() && script.fin && !seen.fin_sent {
                if h3_conn.send_body(&mut conn, sid, &[], true).is_ok() {
                    seen.fin_sent = true;
                }
            }
        }
        conn.on_timeout();
        flush(&socket, &mut conn).await;
        let t = conn.timeout().unwrap_or(Duration::from_millis(5)).min(Duration::from_millis(5));
        let _ = tokio::time::timeout(t, socket.readable()).await;
    }
    seen.peer_close = conn.peer_error().map(|e| (e.is_app, e.error_code));
    let _ = conn.close(true, 0, b"");
    flush(&socket, &mut conn).await;
    seen
}

#[derive(Debug, Default, Clone)]
pub struct HoldSeen {
    pub established: bool,
    pub ping_status: Option<u16>,
    /// the peer sent CONNECTION_CLOSE (transport or application) before the limit
    pub closed_by_peer: bool,
    pub peer_error: Option<String>,
    pub error: Option<String>,
}

/// Open an HTTP/3 connection, do one x-ping request, tell `ready`, then just keep the connection
/// alive until the peer closes it or `limit` after `go` has passed.
pub async fn h3_hold(
    peer: SocketAddr,
    sni: &str,
    ready: tokio::sync::mpsc::Sender<()>,
    mut go: tokio::sync::watch::Receiver<Option<Instant>>,
    limit: Duration,
) -> HoldSeen {
    let mut seen = HoldSeen::default();
    let Ok(socket) = UdpSocket::bind("127.0.0.1:0").await else {
        seen.error = Some("bind".into());
        return seen;
    };
    let mut scid = [0u8; quiche::MAX_CONN_ID_LEN];
    let _ = ring::rand::SecureRandom::fill(&ring::rand::SystemRandom::new(), &mut scid);
    let mut config = quiche::Config::new(quiche::PROTOCOL_VERSION).unwrap();
    config.verify_peer(false);
    config.set_max_idle_timeout(30_000);
    config.set_max_recv_udp_payload_size(MAX_UDP_PAYLOAD);
    config.set_max_send_udp_payload_size(MAX_UDP_PAYLOAD);
    config.set_initial_max_data(1_000_000);
    config.set_initial_max_stream_data_bidi_local(200_000);
    config.set_initial_max_stream_data_bidi_remote(200_000);
    config.set_initial_max_stream_data_uni(200_000);
    config.set_initial_max_streams_bidi(100);
    config.set_initial_max_streams_uni(100);
    let _ = config.set_application_protos(&[b"h3"]);
    let mut conn = match quiche::connect(Some(sni), &quiche::ConnectionId::from_ref(&scid), socket.local_addr().unwrap(), peer, &mut config) {
        Ok(c) => c,
        Err(e) => {
            seen.error = Some(format!("connect: {}", e));
            return seen;
        }
    };
    flush(&socket, &mut conn).await;
    let setup_deadline = Instant::now() + Duration::from_secs(5);
    while !conn.is_established() {
        if conn.is_closed() || Instant::now() > setup_deadline {
            seen.error = Some("QUIC handshake did not complete".into());
            return seen;
        }
        wait_io(&socket, &conn).await;
        read_out(&socket, &mut conn);
        conn.on_timeout();
        flush(&socket, &mut conn).await;
    }
    seen.established = true;
    let Ok(mut h3_conn) = h3::Connection::with_transport(&mut conn, &h3::Config::new().unwrap()) else {
        seen.error = Some("h3".into());
        return seen;
    };
    let authority = format!("{}:{}", sni, peer.port());
    let hdrs = [
        h3::Header::new(b":method", b"GET"),
        h3::Header::new(b":scheme", b"https"),
        h3::Header::new(b":authority", authority.as_bytes()),
        h3::Header::new(b":path", b"/"),
        h3::Header::new(b"x-ping", b"1"),
    ];
    let _ = h3_conn.send_request(&mut conn, &hdrs, true);
    flush(&socket, &mut conn).await;
    let mut told = false;
    let mut t0: Option<Instant> = None;
    loop {
        read_out(&socket, &mut conn);
        loop {
            match h3_conn.poll(&mut conn) {
                Ok((_, h3::Event::Headers { list, .. })) => {
                    seen.ping_status = list.iter().find(|h| h.name() == b":status").and_then(|h| std::str::from_utf8(h.value()).ok().and_then(|s| s.parse().ok()));
                }
                Ok(_) => {}
                Err(_) => break,
            }
        }
        if !told && (seen.ping_status.is_some() || Instant::now() > setup_deadline) {
            told = true;
            let _ = ready.send(()).await;
        }
        if t0.is_none() {
            t0 = *go.borrow_and_update();
        }
        if conn.is_closed() || conn.is_draining() {
            if let Some(e) = conn.peer_error() {
                seen.closed_by_peer = true;
                seen.peer_error = Some(format!("is_app={} code={:#x} reason={:?}", e.is_app, e.error_code, String::from_utf8_lossy(&e.reason)));
            }
            break;
        }
        if let Some(t) = t0 {
            if Instant::now() > t + limit {
                break;
            }
        } else if Instant::now() > setup_deadline + Duration::from_secs(30) {
            break;
        }
        conn.on_timeout();
        flush(&socket, &mut conn).await;
        let t = conn.timeout().unwrap_or(Duration::from_millis(10)).min(Duration::from_millis(10));
        let _ = tokio::time::timeout(t, socket.readable()).await;
    }
    if !conn.is_closed() && !conn.is_draining() {
        let _ = conn.close(true, 0, b"");
        flush(&socket, &mut conn).await;
    }
    if std::env::var("VERIF_DEBUG").is_ok() {
        eprintln!(
            "h3_hold end: closed={} draining={} timed_out={} peer_error={:?} local_error={:?} stats={:?}",
            conn.is_closed(),
            conn.is_draining(),
            conn.is_timed_out(),
            conn.peer_error().map(|e| (e.is_app, e.error_code)),
            conn.local_error().map(|e| (e.is_app, e.error_code)),
            conn.stats()
        );
    }
    seen
}
