//! The real endpoint binary (`ttv-endpoint`, compiled from /repo/endpoint/src/main.rs by the
//! harness build) as a child process with generated configuration files.

use crate::props::c04::TempFile;
use std::net::SocketAddr;
use std::process::{Child, Command, ExitStatus, Stdio};
use std::time::{Duration, Instant};

pub fn endpoint_bin() -> std::path::PathBuf {
    let me = std::env::current_exe().unwrap_or_default();
    me.parent().map(|d| d.join("ttv-endpoint")).unwrap_or_else(|| "/verif/target/release/ttv-endpoint".into())
}

pub struct Endpoint {
    pub child: Child,
    pub addr: SocketAddr,
    pub started: Instant,
    /// the TLS hosts settings file the process was started with (rewritten for reload tests)
    pub hosts_path: Option<std::path::PathBuf>,
    _files: Vec<TempFile>,
    log: TempFile,
}

/// A port for an endpoint that is started a moment later. Ports come from a range below the
/// ephemeral one, partitioned by worker, so that concurrently running workers (and the kernel's
/// own choice of ephemeral ports) cannot hand the same number to two endpoints; the port is
/// checked to be free for TCP and UDP on IPv4 and IPv6 loopback.
pub fn free_port() -> std::io::Result<u16> {
    static NEXT: std::sync::atomic::AtomicU32 = std::sync::atomic::AtomicU32::new(0);
    let shard = crate::engine::SHARD.load(std::sync::atomic::Ordering::SeqCst) as u32 % 16;
    let salt = std::process::id().wrapping_mul(37);
    for _ in 0..1200 {
        let n = NEXT.fetch_add(1, std::sync::atomic::Ordering::SeqCst);
        let port = (10_000 + shard * 1200 + (salt.wrapping_add(n) % 1200)) as u16;
        let tcp4 = std::net::TcpListener::bind(("127.0.0.1", port));
        let udp4 = std::net::UdpSocket::bind(("127.0.0.1", port));
        let tcp6 = std::net::TcpListener::bind(("::1", port));
        if tcp4.is_ok() && udp4.is_ok() && (tcp6.is_ok() || tcp6.as_ref().err().map(|e| e.kind()) != Some(std::io::ErrorKind::AddrInUse)) {
            return Ok(port);
        }
    }
    Err(std::io::Error::new(std::io::ErrorKind::AddrInUse, "no free port in this worker's range"))
}

/// Start the endpoint on files that already exist (paths relative to `cwd`)
pub fn start_existing(cwd: &std::path::Path, settings: &str, hosts: &str, addr: SocketAddr, wait_up: Duration, loglvl: &str) -> Start {
    let log = TempFile::new("ep-log", "");
    let child = Command::new(endpoint_bin())
        .current_dir(cwd)
        .arg("--jobs")
        .arg("2")
        .arg("-l")
        .arg(loglvl)
        .arg("--logfile")
        .arg(log.path())
        .arg(settings)
        .arg(hosts)
        .stdin(Stdio::null())
        .stdout(Stdio::null())
        .stderr(Stdio::piped())
        .spawn();
    let mut child = match child {
        Ok(c) => c,
        Err(e) => return Start::Failed(format!("cannot start {:?}: {}", endpoint_bin(), e)),
    };
    let started = Instant::now();
    loop {
        if let Ok(Some(st)) = child.try_wait() {
            let mut err = String::new();
            if let Some(mut e) = child.stderr.take() {
                use std::io::Read;
                let _ = e.read_to_string(&mut err);
            }
            let logtxt = std::fs::read_to_string(&log.0).unwrap_or_default();
            return Start::Exited(st, format!("{}{}", err, logtxt));
        }
        if std::net::TcpStream::connect_timeout(&addr, Duration::from_millis(200)).is_ok() {
            std::thread::sleep(Duration::from_millis(20));
            if let Ok(None) = child.try_wait() {
                return Start::Up(Endpoint { child, addr, started, hosts_path: None, _files: vec![], log });
            }
            continue;
        }
        if started.elapsed() > wait_up {
            let _ = child.kill();
            let _ = child.wait();
            return Start::Failed(format!("endpoint not accepting connections after {:?}", wait_up));
        }
        std::thread::sleep(Duration::from_millis(10));
    }
}

pub fn wizard_bin() -> std::path::PathBuf {
    endpoint_bin().with_file_name("ttv-wizard")
}

pub enum Start {
    Up(Endpoint),
    /// the process ended by itself: exit status and its output
    Exited(ExitStatus, String),
    Failed(String),
}

/// Write the three files and start the endpoint. `settings` must contain the marker `@LISTEN@`
/// where the listen address goes and `@CRED@` where the credentials path goes.
pub fn start(settings: &str, hosts: &str, credentials: &str, wait_up: Duration, loglvl: &str) -> Start {
    start_on(settings, hosts, credentials, wait_up, loglvl)
}

/// Like [`start`]; `@PORT@` in the settings is replaced by the free port alone (the settings then
/// choose the address), and the probe connects to that port on the matching loopback address.
pub fn start_on(settings: &str, hosts: &str, credentials: &str, wait_up: Duration, loglvl: &str) -> Start {
    for _ in 0..10 {
        let port = match free_port() {
            Ok(p) => p,
            Err(e) => return Start::Failed(e.to_string()),
        };
        let v6 = settings.contains("\"[::") ;
        let addr: SocketAddr = if v6 { format!("[::1]:{}", port) } else { format!("127.0.0.1:{}", port) }.parse().unwrap();
        let cred = TempFile::new("ep-cred", credentials);
        let sdoc = settings
            .replace("@LISTEN@", &addr.to_string())
            .replace("@PORT@", &port.to_string())
            .replace("@CRED@", &cred.path());
        let sfile = TempFile::new("ep-settings", &sdoc);
        let hfile = TempFile::new("ep-hosts", hosts);
        let log = TempFile::new("ep-log", "");
        let child = Command::new(endpoint_bin())
            .arg("--jobs")
            .arg("2")
            .arg("-l")
            .arg(loglvl)
            .arg("--logfile")
            .arg(log.path())
            .arg(sfile.path())
            .arg(hfile.path())
            .stdin(Stdio::null())
            .stdout(Stdio::null())
            .stderr(Stdio::piped())
            .spawn();
        let mut child = match child {
            Ok(c) => c,
            Err(e) => return Start::Failed(format!("cannot start {:?}: {}", endpoint_bin(), e)),
        };
        let started = Instant::now();
        loop {
            if let Ok(Some(st)) = child.try_wait() {
                let mut err = String::new();
                if let Some(mut e) = child.stderr.take() {
                    use std::io::Read;
                    let _ = e.read_to_string(&mut err);
                }
                let logtxt = std::fs::read_to_string(&log.0).unwrap_or_default();
                if logtxt.contains("Address already in use") || err.contains("Address already in use") {
                    break; // lost the race for the port: retry with another one
                }
                return Start::Exited(st, format!("{}{}", err, logtxt));
            }
            if std::net::TcpStream::connect_timeout(&addr, Duration::from_millis(200)).is_ok() {
                // make sure it is this process that listens
                std::thread::sleep(Duration::from_millis(20));
                if let Ok(None) = child.try_wait() {
                    return Start::Up(Endpoint {
                        child,
                        addr,
                        started,
                        hosts_path: Some(hfile.0.clone()),
                        _files: vec![cred, sfile, hfile],
                        log,
                    });
                }
                continue;
            }
            if started.elapsed() > wait_up {
                let _ = child.kill();
                let _ = child.wait();
                return Start::Failed(format!("endpoint not accepting connections after {:?}", wait_up));
            }
            std::thread::sleep(Duration::from_millis(10));
        }
    }
    Start::Failed("no free port".into())
}

impl Endpoint {
    pub fn signal(&self, sig: i32) {
        unsafe {
            libc::kill(self.child.id() as i32, sig);
        }
    }
    pub fn exited(&mut self) -> Option<ExitStatus> {
        self.child.try_wait().ok().flatten()
    }
    pub fn log_text(&self) -> String {
        std::fs::read_to_string(&self.log.0).unwrap_or_default()
    }
}

impl Drop for Endpoint {
    fn drop(&mut self) {
        if let Ok(None) = self.child.try_wait() {
            let _ = self.child.kill();
        }
        let _ = self.child.wait();
    }
}
