//! libFuzzer campaigns (cargo-fuzz) of the thorough tier, run from the parent process.

use super::{Report, SuiteReport, Violation, ViolationRec, VERIF_ROOT};
use serde_json::json;
use std::process::Command;

pub const FUZZ_DIR: &str = "/verif/harness/fuzz";

fn rule(target: &str) -> String {
    match target {
        "udp_decoder" => "coverage-guided (libFuzzer, ASan): bytes -> (up to 4 cut positions, stream) -> real UDP-mux decoder vs the reference 6.3 decoder (every datagram, every skipped record)",
        "icmp_packets" => "coverage-guided (libFuzzer, ASan): bytes -> ICMP / ICMPv6 receive path (deserialize, quoted-request extraction, 7.4 encoder) vs the reference parser; IP header skipping returns a suffix",
        "client_random" => "coverage-guided (libFuzzer, ASan): bytes -> extract_client_random on growing prefixes: any Found equals bytes 11..43 and stays Found",
        "h1_heads" => "coverage-guided (libFuzzer, ASan): bytes -> HTTP/1.1 request and response head decoders: head length within input, no partial head beyond 1024 bytes",
        "socks5_server_bytes" => "coverage-guided (libFuzzer, ASan): bytes as a SOCKS5 server's replies -> the real client dialogue ends with a classified result; success only after an offered method",
        "icmp_mux_stream" => "coverage-guided (libFuzzer, ASan): bytes -> (up to 5 cut positions, stream of 7.3 records) -> real ICMP-mux request decoder vs the reference decoder; each request's serialised echo has the requested id/seq/size and a valid checksum",
        "udp_roundtrip" => "coverage-guided (libFuzzer, ASan): bytes -> datagrams: real 6.4 encoder == reference encoder; their 6.3 encoding under a fuzzer-chosen segmentation -> real decoder returns exactly them",
        _ => "coverage-guided fuzz target",
    }
    .to_string()
}

/// Run one target for `runs` executions; returns its suite report and a violation if it crashed.
pub fn run_target(prop: &str, target: &str, runs: u64, seed: u64) -> (SuiteReport, Option<ViolationRec>, Option<String>) {
    let mut rep = SuiteReport { rule: rule(target), ..Default::default() };
    let corpus = format!("{}/target/fuzz-corpus/{}-{}-{}", VERIF_ROOT, prop, target, std::process::id());
    let _ = std::fs::remove_dir_all(&corpus);
    let _ = std::fs::create_dir_all(&corpus);
    // committed seed inputs
    let seeds = format!("{}/corpus/fuzz/{}", VERIF_ROOT, target);
    if let Ok(rd) = std::fs::read_dir(&seeds) {
        for e in rd.flatten() {
            let _ = std::fs::copy(e.path(), format!("{}/{}", corpus, e.file_name().to_string_lossy()));
        }
    }
    let artifacts = format!("{}/target/fuzz-artifacts/{}-{}/", VERIF_ROOT, target, std::process::id());
    let _ = std::fs::create_dir_all(&artifacts);
    // a run of this target allocates and checksums up to 8 x 64 KiB: fewer runs for the same wall time
    let runs = if target == "icmp_mux_stream" { runs / 8 } else { runs };
    let out = Command::new("cargo")
        .current_dir(FUZZ_DIR)
        .env("RUST_BACKTRACE", "0")
        .env("CARGO_NET_OFFLINE", "true")
        .args(["+nightly", "fuzz", "run", target, &corpus, "--"])
        .arg(format!("-runs={}", runs))
        .arg(format!("-seed={}", (seed % 4_000_000_000).max(1)))
        .arg("-max_len=4096")
        .arg("-len_control=0")
        .arg("-timeout=20")
        .arg("-rss_limit_mb=4096")
        .arg(format!("-artifact_prefix={}", artifacts))
        .output();
    let out = match out {
        Ok(o) => o,
        Err(e) => return (rep, None, Some(format!("cannot run cargo fuzz: {}", e))),
    };
    let text = String::from_utf8_lossy(&out.stderr).into_owned() + &String::from_utf8_lossy(&out.stdout);
    let mut done = 0u64;
    let mut corp = 0u64;
    let mut cov = 0u64;
    for line in text.lines() {
        if let Some(rest) = line.strip_prefix("Done ") {
            done = rest.split_whitespace().next().and_then(|x| x.parse().ok()).unwrap_or(0);
        }
        if line.contains(" cov: ") {
            let mut it = line.split_whitespace();
            while let Some(tok) = it.next() {
                match tok {
                    "cov:" => cov = it.next().and_then(|x| x.parse().ok()).unwrap_or(cov),
                    "corp:" => corp = it.next().and_then(|x| x.split('/').next().and_then(|y| y.parse().ok())).unwrap_or(corp),
                    _ => {}
                }
            }
        }
        if done == 0 {
            if let Some(n) = line.strip_prefix('#').and_then(|l| l.split_whitespace().next()).and_then(|x| x.parse::<u64>().ok()) {
                rep.evaluations = rep.evaluations.max(n);
            }
        }
    }
    if done > 0 {
        rep.evaluations = done;
    }
    rep.nontrivial_direct = corp;
    rep.classes.insert("coverage-edges".into(), cov);
    rep.classes.insert("corpus-inputs".into(), corp);
    rep.classes.insert("nontrivial".into(), corp);
    rep.samples.push(json!({"target": target, "runs": rep.evaluations, "corpus_inputs_with_new_coverage": corp, "edges": cov}));
    rep.notes.push("non-trivial = inputs libFuzzer kept because they reached new coverage (corpus size)".into());
    let _ = std::fs::remove_dir_all(&corpus);
    if out.status.success() {
        let _ = std::fs::remove_dir_all(&artifacts);
        return (rep, None, None);
    }
    // a crash: find the artifact
    let artifact = std::fs::read_dir(&artifacts).ok().and_then(|rd| rd.flatten().map(|e| e.path()).next());
    match artifact {
        Some(path) => {
            let bytes = std::fs::read(&path).unwrap_or_default();
            let reason = text
                .lines()
                .find(|l| l.contains("panicked at") || l.contains("ERROR: AddressSanitizer") || l.contains("ERROR: libFuzzer"))
                .unwrap_or("crash")
                .to_string();
            let kind = if reason.contains("timeout") { "timeout" } else if reason.contains("AddressSanitizer") { "asan" } else { "panic" };
            let v = Violation { sig: format!("fuzz:{}:{}", target, kind), msg: reason };
            let case = json!({"target": target, "artifact_hex": hex::encode(&bytes)});
            let replay = super::write_replay(prop, &format!("fuzz-{}", target), &case, &v);
            let _ = std::fs::remove_dir_all(&artifacts);
            (rep, Some(ViolationRec { suite: format!("fuzz-{}", target), sig: v.sig, msg: v.msg, replay }), None)
        }
        None => {
            let tail: String = text.lines().rev().take(6).collect::<Vec<_>>().join(" | ");
            (rep, None, Some(format!("fuzz target {} failed without an artifact (build problem?): {}", target, tail)))
        }
    }
}

pub fn run_all(prop: &str, targets: &[&str], runs: u64, seed: u64, report: &mut Report) {
    // one build up front so that the campaigns do not race for the cargo lock
    let built = Command::new("cargo")
        .current_dir(FUZZ_DIR)
        .env("CARGO_NET_OFFLINE", "true")
        .args(["+nightly", "fuzz", "build"])
        .output();
    match built {
        Ok(o) if o.status.success() => {}
        Ok(o) => {
            let text = String::from_utf8_lossy(&o.stderr);
            let tail: String = text.lines().rev().take(8).collect::<Vec<_>>().join(" | ");
            report.inconclusive.push(format!("cargo fuzz build failed: {}", tail));
            return;
        }
        Err(e) => {
            report.inconclusive.push(format!("cannot run cargo fuzz build: {}", e));
            return;
        }
    }
    let handles: Vec<_> = targets
        .iter()
        .map(|t| {
            let (p, t) = (prop.to_string(), t.to_string());
            std::thread::spawn(move || (t.clone(), run_target(&p, &t, runs, seed)))
        })
        .collect();
    for h in handles {
        if let Ok((t, (rep, viol, inconclusive))) = h.join() {
            report.suites.insert(format!("fuzz-{}", t), rep);
            if let Some(v) = viol {
                report.violations.push(v);
            }
            if let Some(i) = inconclusive {
                report.inconclusive.push(i);
            }
        }
    }
}

/// Replay a saved crashing input through the fuzz target binary.
pub fn replay(target: &str, artifact_hex: &str) -> Option<bool> {
    let bytes = hex::decode(artifact_hex).ok()?;
    let path = format!("{}/target/fuzz-replay-{}.bin", VERIF_ROOT, std::process::id());
    std::fs::write(&path, bytes).ok()?;
    let out = Command::new("cargo")
        .current_dir(FUZZ_DIR)
        .env("RUST_BACKTRACE", "0")
        .env("CARGO_NET_OFFLINE", "true")
        .args(["+nightly", "fuzz", "run", target, &path])
        .output()
        .ok()?;
    let _ = std::fs::remove_file(&path);
    Some(out.status.success())
}
