#!/usr/bin/env python3
"""Copy one replay per (suite, signature) from /verif/replays into /verif/corpus/<ID>/ ."""
import json, glob, os, shutil, sys
pid = sys.argv[1]
os.makedirs(f'/verif/corpus/{pid}', exist_ok=True)
seen = set()
for f in sorted(glob.glob(f'/verif/corpus/{pid}/*.json')):
    b = json.load(open(f)); k = (b['suite'], b['signature'])
    if k in seen: os.remove(f)
    seen.add(k)
for f in sorted(glob.glob(f'/verif/replays/{pid}-*.json')):
    b = json.load(open(f)); k = (b['suite'], b['signature'])
    if k in seen or len(json.dumps(b['case'])) > 60000: continue
    seen.add(k); shutil.copy(f, f'/verif/corpus/{pid}/'); print('saved', k)
print(sorted(os.listdir(f'/verif/corpus/{pid}')))
