#!/bin/bash
# tools/seeds_regress.sh [SEED_DIR_NAME ...]   (default: every directory under /verif/seeded)
# Applies each seeded change to /repo, runs the quick check of its property, undoes the change and
# reports whether the check raised a VIOLATION (expected for every seed but C04c, see DESIGN.md 7).
# /repo must be clean; nothing is ever committed there.
cd /verif || exit 2
if [ -n "$(git -C /repo status --short)" ]; then echo "/repo is not clean"; exit 2; fi
seeds=("$@")
if [ ${#seeds[@]} -eq 0 ]; then seeds=($(ls seeded | grep -E '^C[0-9]+[a-z]?$')); fi
missed=0
for s in "${seeds[@]}"; do
  prop=$(python3 -c "import json;print(json.load(open('/verif/seeded/$s/meta.json'))['property'])")
  if ! git -C /repo apply /verif/seeded/$s/patch.diff 2>/dev/null; then echo "$s: patch does not apply"; continue; fi
  out=$(./check "$prop" --tier quick 2>&1)
  git -C /repo checkout -- .
  if echo "$out" | grep -q "^VIOLATION property=$prop"; then
    echo "$s: caught ($(echo "$out" | grep -c '^VIOLATION') violation lines)"
  else
    echo "$s: NOT caught ($(echo "$out" | grep -E 'INCONCLUSIVE' | head -1))"; missed=$((missed+1))
  fi
done
echo "missed: $missed"
./check --build >/dev/null 2>&1
