#!/bin/bash
# tools/runall.sh [quick|thorough] [seed] : run every claimed check once, summarise
tier=${1:-quick}
[ -n "$2" ] && export VERIF_SEED=$2
cd /verif
fail=0
for id in $(python3 -c "import json;print(' '.join(c['property_id'] for c in json.load(open('MANIFEST.json'))['checks']))"); do
  s=$(date +%s)
  out=$(./check $id --tier $tier 2>&1); rc=$?
  e=$(( $(date +%s) - s ))
  echo "$id rc=$rc ${e}s $(echo "$out" | grep -E '^(VIOLATION|KNOWN-FINDING|INCONCLUSIVE)' | tr '\n' ';' | cut -c1-300)"
  [ $rc -ne 0 ] && fail=1
done
exit $fail
