#!/bin/bash
# Runs the repository's baseline suite with the verif feature OFF and checks that the 36 stable
# tests of /root/.vp/BASELINE.json pass.
cd /repo || exit 2
export CARGO_NET_OFFLINE=true
cargo nextest run --workspace --no-fail-fast --tool-config-file pb:/w/lib/nextest.toml --profile pb --test-threads 8 --offline >/tmp/baseline.$$.log 2>&1
python3 - <<'P'
import json,glob,sys,xml.etree.ElementTree as ET
base=json.load(open('/root/.vp/BASELINE.json'))
fs=glob.glob('/repo/target/nextest/pb/junit.xml')
if not fs:
    print("no junit output"); sys.exit(2)
res={}
for ts in ET.parse(fs[0]).getroot().iter('testsuite'):
    for tc in ts.iter('testcase'):
        res[ts.get('name')+'::'+tc.get('name')] = tc.find('failure') is None and tc.find('error') is None
bad=[n for n in base['stable_pass'] if not res.get(n)]
print("stable tests passing: %d/%d"%(len(base['stable_pass'])-len(bad),len(base['stable_pass'])))
for b in bad: print("FAILING:",b)
sys.exit(1 if bad else 0)
P
rc=$?
rm -f /tmp/baseline.$$.log
exit $rc
